//@@ include ../common/prelude.rs
// Unit `lay` — mutators of the router layers and of Router itself (C02): every insert / remove / batch_remove keeps the layer invariant
// and changes the set of stored routes by the insertion / removal law; a removed route is returned by the removal.
// Each layer is verified against the CONTRACT of the layer below (shim with the same contract shape as the one verified here).
use std::sync::Arc;
use vstd::std_specs::hash::*;
use std::borrow::Borrow;
use std::hash::{Hash, BuildHasher};
verus! {

//@@ include ../common/vec_specs.rs
// ---- ASSUMED (trusted, listed): String keys obey the hash-table key model; a String is determined by its characters; a &str key finds
// exactly the String key with the same characters (Borrow<str> for String); cloning an Arc yields an equal value
#[verifier::external_body] pub broadcast proof fn axiom_string_key_model() ensures #[trigger] obeys_key_model::<String>() {}
#[verifier::external_body] pub proof fn axiom_string_ext() ensures forall|a: String, b: String| #[trigger] a@ == #[trigger] b@ ==> a == b {}
#[verifier::external_body]
pub broadcast proof fn axiom_borrow_str_contains<V>(m: Map<String, V>, k: &str)
    ensures #[trigger] contains_borrowed_key::<String, V, str>(m, k) == (exists|key: String| key@ == k@ && m.contains_key(key)),
{}
#[verifier::external_body]
pub broadcast proof fn axiom_borrow_str_maps<V>(m: Map<String, V>, k: &str, v: V)
    ensures #[trigger] maps_borrowed_key_to_value::<String, V, str>(m, k, v) == (exists|key: String| key@ == k@ && m.contains_key(key) && m[key] == v),
{}
#[verifier::external_body]
pub broadcast proof fn axiom_borrow_str_removed<V>(m0: Map<String, V>, m1: Map<String, V>, k: &str)
    ensures #[trigger] borrowed_key_removed::<String, V, str>(m0, m1, k) == (exists|key: String| key@ == k@ && m1 == m0.remove(key)),
{}
#[verifier::external_body]
pub broadcast proof fn axiom_arc_cloned<T>(a: Arc<T>, b: Arc<T>) requires #[trigger] cloned::<Arc<T>>(a, b) ensures a == b {}
// ASSUMED specification of HashMap::get_mut (vstd has none): the returned &mut is the entry's value; the map afterwards is the old map
// with that entry's value replaced by the final value behind the reference
pub uninterp spec fn borrowed_upd<K, V, Q: ?Sized>(m0: Map<K, V>, m1: Map<K, V>, k: &Q, v: V) -> bool;
pub assume_specification<'a, K: Borrow<Q> + Eq + Hash, V, S: BuildHasher, A: std::alloc::Allocator, Q: Hash + Eq + ?Sized> [HashMap::<K, V, S, A>::get_mut::<Q>] (m: &'a mut HashMap<K, V, S, A>, k: &Q) -> (r: Option<&'a mut V>)
    ensures match r {
        Some(v) => contains_borrowed_key(old(m)@, k) && maps_borrowed_key_to_value(old(m)@, k, *v) && borrowed_upd(old(m)@, final(m)@, k, *final(v)),
        None => !contains_borrowed_key(old(m)@, k) && final(m)@ == old(m)@,
    };
#[verifier::external_body]
pub broadcast proof fn axiom_borrow_str_upd<V>(m0: Map<String, V>, m1: Map<String, V>, k: &str, v: V)
    ensures #[trigger] borrowed_upd::<String, V, str>(m0, m1, k, v) == (exists|key: String| key@ == k@ && m0.contains_key(key) && m1 == m0.insert(key, v)),
{}

#[verifier::external_body]
pub broadcast proof fn axiom_borrow_string_upd<V>(m0: Map<String, V>, m1: Map<String, V>, k: &String, v: V)
    ensures #[trigger] borrowed_upd::<String, V, String>(m0, m1, k, v) == (m0.contains_key(*k) && m1 == m0.insert(*k, v)),
{}
// ---- sums of a per-bucket measure over a finite map (bookkeeping of `count`)
pub open spec fn msum<K, S>(m: Map<K, S>, f: spec_fn(S) -> nat) -> nat
    decreases m.dom().len()
{
    if m.dom().len() == 0 { 0 } else { let k = m.dom().choose(); f(m[k]) + msum(m.remove(k), f) }
}
pub proof fn lemma_msum_remove<K, S>(m: Map<K, S>, f: spec_fn(S) -> nat, k: K)
    requires m.contains_key(k),
    ensures msum(m, f) == f(m[k]) + msum(m.remove(k), f),
    decreases m.dom().len(),
{
    let c = m.dom().choose();
    if m.dom().len() == 0 { assert(false); }
    if c != k {
        assert(m.dom().contains(c));
        lemma_msum_remove(m.remove(c), f, k);
        lemma_msum_remove(m.remove(k), f, c);
        assert(m.remove(c).remove(k) =~= m.remove(k).remove(c));
    }
}
pub proof fn lemma_msum_insert<K, S>(m: Map<K, S>, f: spec_fn(S) -> nat, k: K, v: S)
    ensures msum(m.insert(k, v), f) == f(v) + msum(m.remove(k), f),
{
    lemma_msum_remove(m.insert(k, v), f, k);
    assert(m.insert(k, v).remove(k) =~= m.remove(k));
}
pub proof fn lemma_msum_fresh<K, S>(m: Map<K, S>, f: spec_fn(S) -> nat, k: K, v: S)
    requires !m.contains_key(k),
    ensures msum(m.insert(k, v), f) == f(v) + msum(m, f),
{
    lemma_msum_insert(m, f, k, v);
    assert(m.remove(k) =~= m);
}

pub proof fn lemma_msum_sub<K, S>(m0: Map<K, S>, m1: Map<K, S>, f: spec_fn(S) -> nat)
    requires m1.dom().subset_of(m0.dom()),
        forall|k: K| m1.contains_key(k) ==> f(#[trigger] m1[k]) == f(m0[k]),
        forall|k: K| m0.contains_key(k) && !m1.contains_key(k) ==> f(#[trigger] m0[k]) == 0,
    ensures msum(m1, f) == msum(m0, f),
    decreases m0.dom().len(),
{
    if m0.dom().len() == 0 {
        assert(m1.dom() =~= Set::<K>::empty());
        assert(m1.dom().len() == 0);
    } else {
        let k = m0.dom().choose();
        assert(m0.contains_key(k));
        lemma_msum_remove(m0, f, k);
        if m1.contains_key(k) {
            lemma_msum_remove(m1, f, k);
            lemma_msum_sub(m0.remove(k), m1.remove(k), f);
        } else {
            lemma_msum_sub(m0.remove(k), m1, f);
        }
    }
}
pub proof fn lemma_msum_delta<K, S>(m0: Map<K, S>, m1: Map<K, S>, f: spec_fn(S) -> nat, q: K)
    requires m1.dom().subset_of(m0.dom()), m0.contains_key(q),
        forall|k: K| k != q && m1.contains_key(k) ==> f(#[trigger] m1[k]) == f(m0[k]),
        forall|k: K| k != q && m0.contains_key(k) && !m1.contains_key(k) ==> f(#[trigger] m0[k]) == 0,
        m1.contains_key(q) ==> f(m1[q]) <= f(m0[q]),
    ensures msum(m1, f) + (f(m0[q]) - (if m1.contains_key(q) { f(m1[q]) } else { 0 })) == msum(m0, f),
{
    lemma_msum_remove(m0, f, q);
    if m1.contains_key(q) { lemma_msum_remove(m1, f, q); } else { assert(m1.remove(q) =~= m1); }
    lemma_msum_sub(m0.remove(q), m1.remove(q), f);
}
// ASSUMED specification of HashMap::retain (vstd has none): the predicate is applied once to every entry with the entry's value behind the
// &mut; entries for which it returns false are removed, the others keep the value the predicate left behind the reference
pub assume_specification<K, V, S, A: std::alloc::Allocator, F: FnMut(&K, &mut V) -> bool> [HashMap::<K, V, S, A>::retain] (m: &mut HashMap<K, V, S, A>, f: F)
    requires forall|k: &K, v: &mut V| old(m)@.contains_key(*k) && *v == old(m)@[*k] ==> #[trigger] f.requires((k, v)),
    ensures
        forall|k: K| #[trigger] final(m)@.contains_key(k) ==> old(m)@.contains_key(k) && exists|v: &mut V| *v == old(m)@[k] && *final(v) == final(m)@[k] && #[trigger] f.ensures((&k, v), true),
        forall|k: K| old(m)@.contains_key(k) && !#[trigger] final(m)@.contains_key(k) ==> exists|v: &mut V| *v == old(m)@[k] && #[trigger] f.ensures((&k, v), false);

// ---- SHIMS: Route and RouterConfig are opaque here; the accessors name the trigger fields of a route
//@@ item src/router_config.rs :: struct RouterConfig
// RouterConfig::default (src/router_config.rs, pinned): a named constant here
pub uninterp spec fn default_config() -> RouterConfig;
impl RouterConfig { #[verifier::external_body] pub fn default() -> (r: Self) ensures r == default_config() { unimplemented!() } }
#[verifier::external_body] #[verifier::accept_recursive_types(T)] pub struct Route<T> { h: std::marker::PhantomData<T> }
pub type RouteRef<T> = Arc<Route<T>>;
pub uninterp spec fn rid<T>(r: Route<T>) -> Seq<char>;
pub uninterp spec fn rscheme<T>(r: Route<T>) -> Option<Seq<char>>;
pub open spec fn rid_of<T>(x: RouteRef<T>) -> Seq<char> { rid(*x) }
pub open spec fn rscheme_of<T>(x: RouteRef<T>) -> Option<Seq<char>> { rscheme(*x) }
pub open spec fn opt_chars(o: Option<&str>) -> Option<Seq<char>> { match o { Some(s) => Some(s@), None => None } }
impl<T> Route<T> {
    // compiling the route's own marker regexes (C12: transparent by LazyRegex's contract, unit tree); result unconstrained here
    #[verifier::external_body] pub fn compile(&self) -> u8 { unimplemented!() }
    #[verifier::external_body] pub fn id(&self) -> (r: &str) ensures r@ == rid(*self) { unimplemented!() }
    #[verifier::external_body] pub fn scheme(&self) -> (r: Option<&str>) ensures opt_chars(r) == rscheme(*self) { unimplemented!() }
}
pub open spec fn ids_has(ids: Set<String>, id: Seq<char>) -> bool { exists|k: String| k@ == id && ids.contains(k) }

// ---- the abstract view every layer offers: an invariant, the set of stored routes, and its (possibly stale, never too small) counter
pub trait Store<T>: Sized {
    spec fn wf(&self) -> bool;
    spec fn holds(&self, x: RouteRef<T>) -> bool;
    spec fn cnt(&self) -> nat;
}
pub open spec fn holds_id<T, S: Store<T>>(v: S, id: Seq<char>) -> bool { exists|y: RouteRef<T>| #[trigger] v.holds(y) && rid(*y) == id }
pub open spec fn uniq<T, S: Store<T>>(v: S) -> bool {
    forall|x: RouteRef<T>, y: RouteRef<T>| #[trigger] v.holds(x) && #[trigger] v.holds(y) && rid(*x) == rid(*y) ==> x == y
}
// the laws of the statement, per operation (v0 before, v1 after)
pub open spec fn inserted_rel<T, S: Store<T>>(v0: S, v1: S, rt: RouteRef<T>) -> bool {
    &&& v1.wf() && v1.cnt() == v0.cnt() + 1
    &&& forall|x: RouteRef<T>| #![trigger v1.holds(x)] #![trigger v0.holds(x)] v1.holds(x) <==> v0.holds(x) || x == rt
}
pub open spec fn removed_rel<T, S: Store<T>>(v0: S, v1: S, id: Seq<char>, r: Option<RouteRef<T>>) -> bool {
    &&& v1.wf()
    &&& forall|y: RouteRef<T>| #![trigger v1.holds(y)] #![trigger v0.holds(y)] v1.holds(y) <==> v0.holds(y) && rid(*y) != id
    // a removed rule is returned by the removal ...
    &&& r matches Some(x) ==> v0.holds(x) && rid(*x) == id && v0.cnt() >= 1 && v1.cnt() == v0.cnt() - 1
    // ... and None means there was none
    &&& r is None ==> !holds_id(v0, id) && v1.cnt() == v0.cnt()
}
// the same without naming the returned route (what a caller that discards the result still knows)
pub open spec fn removed_rel2<T, S: Store<T>>(v0: S, v1: S, id: Seq<char>) -> bool {
    &&& v1.wf()
    &&& forall|y: RouteRef<T>| #![trigger v1.holds(y)] #![trigger v0.holds(y)] v1.holds(y) <==> v0.holds(y) && rid(*y) != id
    &&& if holds_id(v0, id) { v0.cnt() >= 1 && v1.cnt() == v0.cnt() - 1 } else { v1.cnt() == v0.cnt() }
}
pub open spec fn batched_rel<T, S: Store<T>>(v0: S, v1: S, ids: Set<String>) -> bool {
    &&& v1.wf() && v1.cnt() == v0.cnt()
    &&& forall|y: RouteRef<T>| #![trigger v1.holds(y)] #![trigger v0.holds(y)] v1.holds(y) <==> v0.holds(y) && !ids_has(ids, rid(*y))
}
pub proof fn lemma_removed_rel2<T, S: Store<T>>(v0: S, v1: S, id: Seq<char>, r: Option<RouteRef<T>>)
    requires removed_rel(v0, v1, id, r),
    ensures removed_rel2(v0, v1, id), r is Some <==> holds_id(v0, id),
{}
// the contract of a lower layer (the same contract is verified on the layers that are under contract in this unit)
#[verifier::external_body] #[verifier::accept_recursive_types(T)] pub struct Sub<T> { h: std::marker::PhantomData<T> }
impl<T> Store<T> for Sub<T> {
    uninterp spec fn wf(&self) -> bool;
    uninterp spec fn holds(&self, x: RouteRef<T>) -> bool;
    uninterp spec fn cnt(&self) -> nat;
}
impl<T> Sub<T> {
    #[verifier::external_body]
    pub fn new(config: Arc<RouterConfig>) -> (r: Self) ensures r.wf(), r.cnt() == 0, forall|x: RouteRef<T>| !r.holds(x) { unimplemented!() }
    #[verifier::external_body]
    pub fn insert(&mut self, route: RouteRef<T>)
        requires old(self).wf(), old(self).cnt() < usize::MAX, forall|x: RouteRef<T>| old(self).holds(x) ==> rid(*x) != rid(*route),
        ensures inserted_rel(*old(self), *final(self), route),
    { unimplemented!() }
    #[verifier::external_body]
    pub fn remove(&mut self, id: &str) -> (r: Option<RouteRef<T>>) requires old(self).wf() ensures removed_rel(*old(self), *final(self), id@, r) { unimplemented!() }
    #[verifier::external_body]
    pub fn batch_remove(&mut self, ids: &HashSet<String>) -> (r: bool) requires old(self).wf() ensures batched_rel(*old(self), *final(self), ids@) { unimplemented!() }
    #[verifier::external_body]
    pub fn len(&self) -> (r: usize) ensures r == self.cnt() { unimplemented!() }
    #[verifier::external_body]
    pub fn is_empty(&self) -> (r: bool) ensures r == (self.cnt() == 0) { unimplemented!() }
    // cache warm-up of a lower layer (C12): same stored routes under the same invariant (hence, by exactness, the same answer to every
    // request: lemma_sub_same_answers), never hands back more budget than it got. PROVED for every real layer below (fn cache of each).
    #[verifier::external_body]
    pub fn cache(&mut self, limit: u64, level: u64) -> (r: u64)
        requires old(self).wf(),
        ensures same_store(*old(self), *final(self)), r <= limit,
    { unimplemented!() }
}
// consequences of the lower layer's invariant (part of / implied by wf() on the layers verified here: see lemma_*_wf below)
#[verifier::external_body]
pub proof fn lemma_sub_wf<T>(s: Sub<T>) requires s.wf() ensures uniq(s), s.cnt() == 0 ==> forall|x: RouteRef<T>| !s.holds(x), s.cnt() <= usize::MAX {}

// ---- matching (C01 exactness, per layer): the lower layer answers a request with exactly its stored routes whose remaining triggers
// hold (sat_below names the conjunction of the triggers decided below); each layer verified here proves the same statement for itself
// with its own trigger added, so the statement composes down the chain
#[verifier::external_body] pub struct IpAddr { x: u8 }
#[verifier::external_body] pub struct ReqRest { x: u8 }
// SHIM: only the field read directly by a layer is visible
pub struct Request { pub remote_addr: Option<IpAddr>, pub vf_rest: ReqRest }
pub uninterp spec fn req_scheme(q: Request) -> Option<Seq<char>>;
impl Request {
    #[verifier::external_body] pub fn scheme(&self) -> (r: Option<&str>) ensures opt_chars(r) == req_scheme(*self) { unimplemented!() }
}
pub uninterp spec fn sub_answers<T>(s: Sub<T>, q: Request, x: RouteRef<T>) -> bool;
pub uninterp spec fn sat_below<T>(x: RouteRef<T>, q: Request) -> bool;
impl<T> Sub<T> {
    #[verifier::external_body]
    pub uninterp spec fn answer_len(&self, request: Request) -> nat;
    #[verifier::external_body]
    pub fn match_request(&self, request: &Request) -> (r: Vec<RouteRef<T>>) ensures forall|x: RouteRef<T>| #[trigger] r@.contains(x) <==> sub_answers(*self, *request, x), r@.no_duplicates(), r@.len() == self.answer_len(*request) { unimplemented!() }
}
// `routes.iter().any(|known| Arc::ptr_eq(known, &route))`. `r ==> contains` is sound outright (an identical handle is an equal one). The
// converse is ASSUMED: a route handle is identified with its allocation, i.e. two handles the spec regards as equal are one allocation
// (Verus compares Arcs by content; Route<T> is opaque here and every handle in a matcher is a clone of the one Arc made per inserted rule).
#[verifier::external_body] pub fn outl_known<T>(routes: &Vec<RouteRef<T>>, route: &RouteRef<T>) -> (r: bool)
    ensures r == routes@.contains(*route),
{ /* verbatim: routes.iter().any(|known| Arc::ptr_eq(known, &route)) */ unimplemented!() }
pub open spec fn seen_upto<T>(s: Seq<RouteRef<T>>, n: int, x: RouteRef<T>) -> bool { exists|i: int| 0 <= i < n && #[trigger] s[i] == x }
// ASSUMED for the shim (PROVED for every layer under contract here, see lemma_*_exact): exactness of the lower layer
#[verifier::external_body]
pub proof fn lemma_sub_exact<T>(s: Sub<T>, q: Request)
    requires s.wf(),
    ensures forall|x: RouteRef<T>| #[trigger] sub_answers(s, q, x) <==> s.holds(x) && sat_below(x, q),
{}
// `routes.extend(other)`: membership of the concatenation (VERIFIED wrapper around Vec::extend)
pub fn ext_routes<T>(routes: &mut Vec<RouteRef<T>>, other: Vec<RouteRef<T>>)
    ensures forall|x: RouteRef<T>| #[trigger] final(routes)@.contains(x) <==> old(routes)@.contains(x) || other@.contains(x),
        final(routes)@ == old(routes)@ + other@,
        // no duplicates as long as the two parts have none and share no route
        old(routes)@.no_duplicates() && other@.no_duplicates() && (forall|x: RouteRef<T>| !(old(routes)@.contains(x) && other@.contains(x))) ==> final(routes)@.no_duplicates(),
{
    broadcast use axiom_iter_seq_vec;
    let ghost a = routes@; let ghost b = other@;
    /* verbatim: routes.extend(matcher.match_request(request)); */
    routes.extend(other);
    proof {
        assert(routes@ == a + b);
        assert forall|x: RouteRef<T>| #[trigger] routes@.contains(x) <==> a.contains(x) || b.contains(x) by {
            if routes@.contains(x) { let i = choose|i: int| 0 <= i < routes@.len() && routes@[i] == x; if i < a.len() { assert(a[i] == x); } else { assert(b[i - a.len()] == x); } }
            if a.contains(x) { let i = choose|i: int| 0 <= i < a.len() && a[i] == x; assert(routes@[i] == x); }
            if b.contains(x) { let i = choose|i: int| 0 <= i < b.len() && b[i] == x; assert(routes@[a.len() + i] == x); }
        }
        if a.no_duplicates() && b.no_duplicates() && (forall|x: RouteRef<T>| !(a.contains(x) && b.contains(x))) {
            assert forall|i: int, j: int| 0 <= i < routes@.len() && 0 <= j < routes@.len() && i != j implies routes@[i] != routes@[j] by {
                if i < a.len() && j < a.len() {} else if i >= a.len() && j >= a.len() { assert(b[i - a.len()] != b[j - a.len()]); }
                else if i < a.len() { assert(a.contains(a[i])); assert(b.contains(b[j - a.len()])); } else { assert(a.contains(a[j])); assert(b.contains(b[i - a.len()])); }
            }
        }
    }
}
// ---- generic reasoning about a map of buckets (HashMap<String, _> buckets and the regex tree's pattern -> bucket map alike)
pub open spec fn cnt_of<T, S: Store<T>>() -> spec_fn(S) -> nat { |s: S| s.cnt() }
pub open spec fn map_holds<K, T, S: Store<T>>(m: Map<K, S>, x: RouteRef<T>) -> bool { exists|k: K| m.contains_key(k) && #[trigger] m[k].holds(x) }
pub open spec fn map_holds_id<K, T, S: Store<T>>(m: Map<K, S>, id: Seq<char>) -> bool { exists|k: K, y: RouteRef<T>| m.contains_key(k) && #[trigger] m[k].holds(y) && rid(*y) == id }
pub open spec fn map_wf<K, T, S: Store<T>>(m: Map<K, S>) -> bool { forall|k: K| m.contains_key(k) ==> (#[trigger] m[k]).wf() }
// ids are unique across the buckets and no route sits in two buckets
pub open spec fn map_uniq<K, T, S: Store<T>>(m: Map<K, S>) -> bool {
    forall|k1: K, k2: K, x: RouteRef<T>, y: RouteRef<T>| m.contains_key(k1) && m.contains_key(k2) && #[trigger] m[k1].holds(x) && #[trigger] m[k2].holds(y) && rid(*x) == rid(*y) ==> x == y && k1 == k2
}
// bucket-key consistency: what being filed under key k says about a route
pub open spec fn map_keyed<K, T, S: Store<T>>(m: Map<K, S>, kf: spec_fn(K, RouteRef<T>) -> bool) -> bool {
    forall|k: K, x: RouteRef<T>| m.contains_key(k) && #[trigger] m[k].holds(x) ==> kf(k, x)
}
// one bucket (existing or fresh) received the route
pub proof fn lemma_map_inserted<K, T, S: Store<T>>(m0: Map<K, S>, m1: Map<K, S>, key: K, rt: RouteRef<T>, kf: spec_fn(K, RouteRef<T>) -> bool)
    requires map_wf(m0), map_keyed(m0, kf), kf(key, rt), m1.contains_key(key), m1 == m0.insert(key, m1[key]), m1[key].wf(),
        forall|x: RouteRef<T>| #![trigger m1[key].holds(x)] m1[key].holds(x) <==> (m0.contains_key(key) && m0[key].holds(x)) || x == rt,
        m1[key].cnt() == (if m0.contains_key(key) { m0[key].cnt() } else { 0 }) + 1,
    ensures map_wf(m1), map_keyed(m1, kf), msum(m1, cnt_of::<T, S>()) == msum(m0, cnt_of::<T, S>()) + 1,
        forall|x: RouteRef<T>| #![trigger map_holds(m1, x)] #![trigger map_holds(m0, x)] map_holds(m1, x) <==> map_holds(m0, x) || x == rt,
{
    let f = cnt_of::<T, S>(); let v = m1[key];
    lemma_msum_insert(m0, f, key, v);
    if m0.contains_key(key) { lemma_msum_remove(m0, f, key); } else { assert(m0.remove(key) =~= m0); }
    assert forall|k: K| m1.contains_key(k) implies (#[trigger] m1[k]).wf() by { if k != key { assert(m0.contains_key(k) && m0[k] == m1[k]); } }
    assert forall|k: K, x: RouteRef<T>| m1.contains_key(k) && #[trigger] m1[k].holds(x) implies kf(k, x) by {
        if k != key { assert(m0.contains_key(k) && m0[k] == m1[k]); assert(m0[k].holds(x)); } else if x != rt { assert(m0[key].holds(x)); }
    }
    assert forall|x: RouteRef<T>| #![trigger map_holds(m1, x)] #![trigger map_holds(m0, x)] map_holds(m1, x) <==> map_holds(m0, x) || x == rt by {
        if map_holds(m1, x) { let k = choose|k: K| m1.contains_key(k) && #[trigger] m1[k].holds(x); if k != key { assert(m0.contains_key(k) && m0[k] == m1[k]); assert(m0[k].holds(x)); } else if x != rt { assert(m0[key].holds(x)); } }
        if map_holds(m0, x) { let k = choose|k: K| m0.contains_key(k) && #[trigger] m0[k].holds(x); assert(m1.contains_key(k)); if k != key { assert(m1[k] == m0[k]); } assert(m1[k].holds(x)); }
        if x == rt { assert(m1[key].holds(x)); }
    }
}
// remove(id) was applied to every bucket; only buckets that are empty afterwards may have been dropped
pub open spec fn entries_removed<K, T, S: Store<T>>(m0: Map<K, S>, m1: Map<K, S>, id: Seq<char>) -> bool {
    &&& forall|k: K| #[trigger] m1.contains_key(k) ==> m0.contains_key(k) && removed_rel2(m0[k], m1[k], id)
    &&& forall|k: K| m0.contains_key(k) && !#[trigger] m1.contains_key(k) ==> exists|v1: S| #[trigger] removed_rel2(m0[k], v1, id) && v1.cnt() == 0
}
pub proof fn lemma_map_removed<K, T, S: Store<T>>(m0: Map<K, S>, m1: Map<K, S>, id: Seq<char>, kf: spec_fn(K, RouteRef<T>) -> bool)
    requires entries_removed(m0, m1, id), map_wf(m0), map_uniq(m0), map_keyed(m0, kf),
        forall|v: S| v.wf() && v.cnt() == 0 ==> forall|x: RouteRef<T>| !#[trigger] v.holds(x),
    ensures map_wf(m1), map_keyed(m1, kf),
        forall|y: RouteRef<T>| #![trigger map_holds(m1, y)] #![trigger map_holds(m0, y)] map_holds(m1, y) <==> map_holds(m0, y) && rid(*y) != id,
        msum(m1, cnt_of::<T, S>()) + (if map_holds_id(m0, id) { 1nat } else { 0nat }) == msum(m0, cnt_of::<T, S>()),
{
    let f = cnt_of::<T, S>();
    assert(m1.dom().subset_of(m0.dom()));
    assert forall|k: K, y: RouteRef<T>| m0.contains_key(k) && !m1.contains_key(k) && #[trigger] m0[k].holds(y) implies rid(*y) == id by {
        let v1 = choose|v1: S| #[trigger] removed_rel2(m0[k], v1, id) && v1.cnt() == 0;
        if rid(*y) != id { assert(v1.holds(y)); }
    }
    assert forall|y: RouteRef<T>| #![trigger map_holds(m1, y)] #![trigger map_holds(m0, y)] map_holds(m1, y) <==> map_holds(m0, y) && rid(*y) != id by {
        if map_holds(m1, y) { let k = choose|k: K| m1.contains_key(k) && #[trigger] m1[k].holds(y); assert(m0.contains_key(k) && m0[k].holds(y)); }
        if map_holds(m0, y) && rid(*y) != id { let k = choose|k: K| m0.contains_key(k) && #[trigger] m0[k].holds(y); assert(m1.contains_key(k)); assert(m1[k].holds(y)); }
    }
    assert forall|k: K, x: RouteRef<T>| m1.contains_key(k) && #[trigger] m1[k].holds(x) implies kf(k, x) by { assert(m0[k].holds(x)); }
    // counts: a bucket that holds no route with this id keeps its count
    assert forall|k: K| m0.contains_key(k) && !holds_id(m0[k], id) implies (m1.contains_key(k) ==> f(m1[k]) == f(#[trigger] m0[k])) && (!m1.contains_key(k) ==> f(m0[k]) == 0) by {
        if !m1.contains_key(k) { let v1 = choose|v1: S| #[trigger] removed_rel2(m0[k], v1, id) && v1.cnt() == 0; }
    }
    if map_holds_id(m0, id) {
        let (q, x0) = choose|k: K, y: RouteRef<T>| m0.contains_key(k) && #[trigger] m0[k].holds(y) && rid(*y) == id;
        assert(holds_id(m0[q], id));
        assert forall|k: K| k != q && m0.contains_key(k) implies !holds_id(#[trigger] m0[k], id) by {
            if holds_id(m0[k], id) { let y = choose|y: RouteRef<T>| #[trigger] m0[k].holds(y) && rid(*y) == id; assert(m0[k].holds(y) && m0[q].holds(x0)); }
        }
        if !m1.contains_key(q) { let v1 = choose|v1: S| #[trigger] removed_rel2(m0[q], v1, id) && v1.cnt() == 0; }
        lemma_msum_delta(m0, m1, f, q);
    } else {
        assert forall|k: K| m0.contains_key(k) implies !holds_id(#[trigger] m0[k], id) by {
            if holds_id(m0[k], id) { let y = choose|y: RouteRef<T>| #[trigger] m0[k].holds(y) && rid(*y) == id; assert(m0[k].holds(y)); }
        }
        lemma_msum_sub(m0, m1, f);
    }
}
// batch_remove(ids) was applied to every bucket; only buckets whose counter is 0 may have been dropped
pub open spec fn entries_batched<K, T, S: Store<T>>(m0: Map<K, S>, m1: Map<K, S>, ids: Set<String>) -> bool {
    &&& forall|k: K| #[trigger] m1.contains_key(k) ==> m0.contains_key(k) && batched_rel(m0[k], m1[k], ids)
    &&& forall|k: K| m0.contains_key(k) && !#[trigger] m1.contains_key(k) ==> exists|v1: S| #[trigger] batched_rel(m0[k], v1, ids) && v1.cnt() == 0
}
pub proof fn lemma_map_batched<K, T, S: Store<T>>(m0: Map<K, S>, m1: Map<K, S>, ids: Set<String>, kf: spec_fn(K, RouteRef<T>) -> bool)
    requires entries_batched(m0, m1, ids), map_wf(m0), map_keyed(m0, kf),
        forall|v: S| v.wf() && v.cnt() == 0 ==> forall|x: RouteRef<T>| !#[trigger] v.holds(x),
    ensures map_wf(m1), map_keyed(m1, kf), msum(m1, cnt_of::<T, S>()) == msum(m0, cnt_of::<T, S>()),
        forall|y: RouteRef<T>| #![trigger map_holds(m1, y)] #![trigger map_holds(m0, y)] map_holds(m1, y) <==> map_holds(m0, y) && !ids_has(ids, rid(*y)),
{
    let f = cnt_of::<T, S>();
    assert(m1.dom().subset_of(m0.dom()));
    assert forall|k: K| m0.contains_key(k) && !m1.contains_key(k) implies f(#[trigger] m0[k]) == 0 && forall|y: RouteRef<T>| m0[k].holds(y) ==> ids_has(ids, rid(*y)) by {
        let v1 = choose|v1: S| #[trigger] batched_rel(m0[k], v1, ids) && v1.cnt() == 0;
        assert forall|y: RouteRef<T>| m0[k].holds(y) implies ids_has(ids, rid(*y)) by { if !ids_has(ids, rid(*y)) { assert(v1.holds(y)); } }
    }
    lemma_msum_sub(m0, m1, f);
    assert forall|y: RouteRef<T>| #![trigger map_holds(m1, y)] #![trigger map_holds(m0, y)] map_holds(m1, y) <==> map_holds(m0, y) && !ids_has(ids, rid(*y)) by {
        if map_holds(m1, y) { let k = choose|k: K| m1.contains_key(k) && #[trigger] m1[k].holds(y); assert(m0.contains_key(k) && m0[k].holds(y)); }
        if map_holds(m0, y) && !ids_has(ids, rid(*y)) { let k = choose|k: K| m0.contains_key(k) && #[trigger] m0[k].holds(y); assert(m1.contains_key(k)); assert(m1[k].holds(y)); }
    }
    assert forall|k: K, x: RouteRef<T>| m1.contains_key(k) && #[trigger] m1[k].holds(x) implies kf(k, x) by { assert(m0[k].holds(x)); }
}
// multi-bucket layers: a route sits in EVERY bucket its trigger names (needed for exactness: whichever of its ip ranges / methods the
// request satisfies, the bucket consulted holds it)
pub open spec fn map_complete<K, T, S: Store<T>>(m: Map<K, S>, kf: spec_fn(K, RouteRef<T>) -> bool) -> bool {
    forall|k: K, x: RouteRef<T>| #![trigger kf(k, x), map_holds(m, x)] kf(k, x) && map_holds(m, x) ==> m.contains_key(k) && m[k].holds(x)
}
pub proof fn lemma_map_complete_removed<K, T, S: Store<T>>(m0: Map<K, S>, m1: Map<K, S>, id: Seq<char>, kf: spec_fn(K, RouteRef<T>) -> bool)
    requires entries_removed(m0, m1, id), map_complete(m0, kf), forall|v: S| v.wf() && v.cnt() == 0 ==> forall|x: RouteRef<T>| !#[trigger] v.holds(x),
    ensures map_complete(m1, kf),
{
    assert forall|k: K, x: RouteRef<T>| #![trigger kf(k, x), map_holds(m1, x)] kf(k, x) && map_holds(m1, x) implies m1.contains_key(k) && m1[k].holds(x) by {
        let k1 = choose|k1: K| m1.contains_key(k1) && #[trigger] m1[k1].holds(x);
        assert(m0.contains_key(k1) && m0[k1].holds(x) && rid(*x) != id); assert(map_holds(m0, x)); assert(m0.contains_key(k) && m0[k].holds(x));
        if !m1.contains_key(k) { let v1 = choose|v1: S| #[trigger] removed_rel2(m0[k], v1, id) && v1.cnt() == 0; assert(v1.holds(x)); }
    }
}
pub proof fn lemma_map_complete_batched<K, T, S: Store<T>>(m0: Map<K, S>, m1: Map<K, S>, ids: Set<String>, kf: spec_fn(K, RouteRef<T>) -> bool)
    requires entries_batched(m0, m1, ids), map_complete(m0, kf), forall|v: S| v.wf() && v.cnt() == 0 ==> forall|x: RouteRef<T>| !#[trigger] v.holds(x),
    ensures map_complete(m1, kf),
{
    assert forall|k: K, x: RouteRef<T>| #![trigger kf(k, x), map_holds(m1, x)] kf(k, x) && map_holds(m1, x) implies m1.contains_key(k) && m1[k].holds(x) by {
        let k1 = choose|k1: K| m1.contains_key(k1) && #[trigger] m1[k1].holds(x);
        assert(m0.contains_key(k1) && m0[k1].holds(x) && !ids_has(ids, rid(*x))); assert(map_holds(m0, x)); assert(m0.contains_key(k) && m0[k].holds(x));
        if !m1.contains_key(k) { let v1 = choose|v1: S| #[trigger] batched_rel(m0[k], v1, ids) && v1.cnt() == 0; assert(v1.holds(x)); }
    }
}
// ---- R13: `map.retain(closure)` where the closure updates ONE captured local. Verus does not support closures assigning captured locals; the
// generator passes the local as an explicit `&mut` parameter (lambda lifting) and routes the call through vf_retain_st, whose body is the
// original `m.retain(..)` applied to the lifted closure. ASSUMED (trusted, listed): retain visits every entry exactly once, in some order,
// threading the state through the calls; an entry is dropped iff the closure returned false, else it keeps the value left behind the &mut.
pub open spec fn chain<K, V, St>(m0: Map<K, V>, m1: Map<K, V>, s0: St, s1: St, post: spec_fn(K, V, V, St, St, bool) -> bool) -> bool {
    exists|order: Seq<K>, states: Seq<St>, vals: Seq<V>, keeps: Seq<bool>| chain_w(m0, m1, s0, s1, post, order, states, vals, keeps)
}
pub open spec fn chain_w<K, V, St>(m0: Map<K, V>, m1: Map<K, V>, s0: St, s1: St, post: spec_fn(K, V, V, St, St, bool) -> bool, order: Seq<K>, states: Seq<St>, vals: Seq<V>, keeps: Seq<bool>) -> bool {
    &&& order.no_duplicates() && (forall|k: K| m0.contains_key(k) <==> #[trigger] order.contains(k))
    &&& states.len() == order.len() + 1 && vals.len() == order.len() && keeps.len() == order.len()
    &&& states[0] == s0 && states[order.len() as int] == s1
    &&& forall|i: int| 0 <= i < order.len() ==> post(#[trigger] order[i], m0[order[i]], vals[i], states[i], states[i + 1], keeps[i])
    &&& forall|i: int| 0 <= i < order.len() ==> (keeps[i] ==> m1.contains_key(#[trigger] order[i]) && m1[order[i]] == vals[i])
    &&& forall|i: int| 0 <= i < order.len() ==> (!keeps[i] ==> !m1.contains_key(#[trigger] order[i]))
    &&& forall|k: K| #[trigger] m1.contains_key(k) ==> m0.contains_key(k)
}
#[verifier::external_body]
pub fn vf_retain_st<K, V, St, F: FnMut(&K, &mut V, &mut St) -> bool>(m: &mut HashMap<K, V>, st: &mut St, f: F, post: Ghost<spec_fn(K, V, V, St, St, bool) -> bool>)
    requires forall|k: &K, v: &mut V, s: &mut St| old(m)@.contains_key(*k) && *v == old(m)@[*k] ==> #[trigger] f.requires((k, v, s)),
        forall|k: &K, v: &mut V, s: &mut St, b: bool| old(m)@.contains_key(*k) && *v == old(m)@[*k] && #[trigger] f.ensures((k, v, s), b) ==> post@(*k, *v, *final(v), *s, *final(s), b),
    ensures chain(old(m)@, final(m)@, *old(st), *final(st), post@),
{ /* verbatim: RECV.retain(|k, v| f(k, v, &mut VAR)) */ let mut f = f; m.retain(|k, v| f(k, v, st)) }
// what one step of the removal closures guarantees: the bucket went through remove(id); the state receives the returned route, if any
pub open spec fn post_rm<K, T, S: Store<T>>(id: Seq<char>) -> spec_fn(K, S, S, Option<RouteRef<T>>, Option<RouteRef<T>>, bool) -> bool {
    |k: K, v0: S, v1: S, s0: Option<RouteRef<T>>, s1: Option<RouteRef<T>>, b: bool|
        v0.wf() ==> exists|r: Option<RouteRef<T>>| #[trigger] removed_rel(v0, v1, id, r) && s1 == (if r is Some { r } else { s0 }) && (!b ==> v1.cnt() == 0)
}
pub open spec fn seen_id<K, T, S: Store<T>>(m0: Map<K, S>, order: Seq<K>, n: int, id: Seq<char>) -> bool {
    exists|j: int| 0 <= j < n && holds_id(m0[#[trigger] order[j]], id)
}
pub proof fn lemma_chain_state<K, T, S: Store<T>>(m0: Map<K, S>, m1: Map<K, S>, s0: Option<RouteRef<T>>, s1: Option<RouteRef<T>>, id: Seq<char>, order: Seq<K>, states: Seq<Option<RouteRef<T>>>, vals: Seq<S>, keeps: Seq<bool>, n: int)
    requires chain_w(m0, m1, s0, s1, post_rm::<K, T, S>(id), order, states, vals, keeps), map_wf(m0), 0 <= n <= order.len(),
    ensures seen_id(m0, order, n, id) ==> (states[n] matches Some(x) && rid(*x) == id && map_holds(m0, x)),
        !seen_id(m0, order, n, id) ==> states[n] == s0,
    decreases n,
{
    if n > 0 {
        lemma_chain_state(m0, m1, s0, s1, id, order, states, vals, keeps, n - 1);
        let k = order[n - 1];
        assert(order.contains(k)); assert(m0.contains_key(k)); assert(m0[k].wf());
        assert(post_rm::<K, T, S>(id)(order[n - 1], m0[order[n - 1]], vals[n - 1], states[n - 1], states[n - 1 + 1], keeps[n - 1]));
        let r = choose|r: Option<RouteRef<T>>| #[trigger] removed_rel(m0[k], vals[n - 1], id, r) && states[n] == (if r is Some { r } else { states[n - 1] }) && (!keeps[n - 1] ==> vals[n - 1].cnt() == 0);
        if r is Some { assert(m0[k].holds(r.unwrap())); assert(holds_id(m0[k], id)); assert(seen_id(m0, order, n, id)); assert(map_holds(m0, r.unwrap())); }
        else {
            assert(!holds_id(m0[k], id));
            if seen_id(m0, order, n, id) { let j = choose|j: int| 0 <= j < n && holds_id(m0[#[trigger] order[j]], id); assert(j < n - 1); assert(seen_id(m0, order, n - 1, id)); }
            if seen_id(m0, order, n - 1, id) { let j = choose|j: int| 0 <= j < n - 1 && holds_id(m0[#[trigger] order[j]], id); assert(0 <= j < n && holds_id(m0[order[j]], id)); }
        }
        if seen_id(m0, order, n - 1, id) { let j = choose|j: int| 0 <= j < n - 1 && holds_id(m0[#[trigger] order[j]], id); assert(0 <= j < n && holds_id(m0[order[j]], id)); }
    }
}
// the summary the layer proofs use (formerly the ASSUMED contract of the outlined statement; now derived from the verified closure)
pub proof fn lemma_chain_removed<K, T, S: Store<T>>(m0: Map<K, S>, m1: Map<K, S>, s0: Option<RouteRef<T>>, s1: Option<RouteRef<T>>, id: Seq<char>)
    requires chain(m0, m1, s0, s1, post_rm::<K, T, S>(id)), map_wf(m0),
    ensures entries_removed(m0, m1, id),
        map_holds_id(m0, id) ==> (s1 matches Some(x) && rid(*x) == id && map_holds(m0, x)),
        !map_holds_id(m0, id) ==> s1 == s0,
{
    let post = post_rm::<K, T, S>(id);
    let (order, states, vals, keeps) = choose|order: Seq<K>, states: Seq<Option<RouteRef<T>>>, vals: Seq<S>, keeps: Seq<bool>| chain_w(m0, m1, s0, s1, post, order, states, vals, keeps);
    let n = order.len() as int;
    assert forall|k: K| #[trigger] m1.contains_key(k) implies m0.contains_key(k) && removed_rel2(m0[k], m1[k], id) by {
        assert(order.contains(k)); let i = choose|i: int| 0 <= i < order.len() && order[i] == k;
        assert(keeps[i]) by { if !keeps[i] { assert(!m1.contains_key(order[i])); } }
        assert(m1.contains_key(order[i]) && m1[order[i]] == vals[i]);
        assert(m0[k].wf());
        assert(post(order[i], m0[order[i]], vals[i], states[i], states[i + 1], keeps[i]));
        let r = choose|r: Option<RouteRef<T>>| #[trigger] removed_rel(m0[k], vals[i], id, r) && states[i + 1] == (if r is Some { r } else { states[i] }) && (!keeps[i] ==> vals[i].cnt() == 0);
        if r is Some { assert(m0[k].holds(r.unwrap())); }
    }
    assert forall|k: K| m0.contains_key(k) && !#[trigger] m1.contains_key(k) implies exists|v1: S| #[trigger] removed_rel2(m0[k], v1, id) && v1.cnt() == 0 by {
        assert(order.contains(k)); let i = choose|i: int| 0 <= i < order.len() && order[i] == k;
        assert(!keeps[i]) by { if keeps[i] { assert(m1.contains_key(order[i])); } }
        assert(m0[k].wf());
        assert(post(order[i], m0[order[i]], vals[i], states[i], states[i + 1], keeps[i]));
        let r = choose|r: Option<RouteRef<T>>| #[trigger] removed_rel(m0[k], vals[i], id, r) && states[i + 1] == (if r is Some { r } else { states[i] }) && (!keeps[i] ==> vals[i].cnt() == 0);
        if r is Some { assert(m0[k].holds(r.unwrap())); }
        assert(removed_rel2(m0[k], vals[i], id) && vals[i].cnt() == 0);
    }
    lemma_chain_state(m0, m1, s0, s1, id, order, states, vals, keeps, n);
    if map_holds_id(m0, id) {
        let (k, y) = choose|k: K, y: RouteRef<T>| m0.contains_key(k) && #[trigger] m0[k].holds(y) && rid(*y) == id;
        assert(order.contains(k)); let i = choose|i: int| 0 <= i < order.len() && order[i] == k;
        assert(holds_id(m0[order[i]], id)); assert(seen_id(m0, order, n, id));
    }
    if seen_id(m0, order, n, id) {
        let j = choose|j: int| 0 <= j < n && holds_id(m0[#[trigger] order[j]], id);
        assert(order.contains(order[j])); assert(m0.contains_key(order[j]));
        let y = choose|y: RouteRef<T>| #[trigger] m0[order[j]].holds(y) && rid(*y) == id;
        assert(map_holds_id(m0, id));
    }
}
// TOLERANT variant for maps in which an id lives in at most one bucket: once the route was found the closure may leave the other buckets
// alone (the early exit PathAndQueryMatcher::remove uses); skipping is harmless there, so it is allowed by the contract.
pub open spec fn post_rm_t<K, T, S: Store<T>>(id: Seq<char>) -> spec_fn(K, S, S, Option<RouteRef<T>>, Option<RouteRef<T>>, bool) -> bool {
    |k: K, v0: S, v1: S, s0: Option<RouteRef<T>>, s1: Option<RouteRef<T>>, b: bool|
        v0.wf() ==> (s0 is Some && v1 == v0 && s1 == s0 && b)
            || (exists|r: Option<RouteRef<T>>| #[trigger] removed_rel(v0, v1, id, r) && s1 == (if r is Some { r } else { s0 }) && (!b ==> v1.cnt() == 0))
}
pub open spec fn one_bucket<K, T, S: Store<T>>(m0: Map<K, S>, id: Seq<char>) -> bool {
    forall|k1: K, k2: K| m0.contains_key(k1) && m0.contains_key(k2) && #[trigger] holds_id(m0[k1], id) && #[trigger] holds_id(m0[k2], id) ==> k1 == k2
}
pub open spec fn step_ok<K, T, S: Store<T>>(m0: Map<K, S>, order: Seq<K>, vals: Seq<S>, keeps: Seq<bool>, id: Seq<char>, i: int) -> bool {
    removed_rel2(m0[order[i]], vals[i], id) && (!keeps[i] ==> vals[i].cnt() == 0)
}
pub proof fn lemma_chain_state_t<K, T, S: Store<T>>(m0: Map<K, S>, m1: Map<K, S>, s0: Option<RouteRef<T>>, s1: Option<RouteRef<T>>, id: Seq<char>, order: Seq<K>, states: Seq<Option<RouteRef<T>>>, vals: Seq<S>, keeps: Seq<bool>, n: int)
    requires chain_w(m0, m1, s0, s1, post_rm_t::<K, T, S>(id), order, states, vals, keeps), map_wf(m0), one_bucket(m0, id), 0 <= n <= order.len(),
        s0 is Some ==> !map_holds_id(m0, id),
    ensures seen_id(m0, order, n, id) ==> (states[n] matches Some(x) && rid(*x) == id && map_holds(m0, x)),
        !seen_id(m0, order, n, id) ==> states[n] == s0,
        // every step so far acted as remove(id) on its bucket (a skipped bucket does not hold the id)
        forall|i: int| 0 <= i < n ==> #[trigger] step_ok(m0, order, vals, keeps, id, i),
    decreases n,
{
    if n > 0 {
        lemma_chain_state_t(m0, m1, s0, s1, id, order, states, vals, keeps, n - 1);
        let k = order[n - 1];
        assert(order.contains(k)); assert(m0.contains_key(k)); assert(m0[k].wf());
        assert(post_rm_t::<K, T, S>(id)(order[n - 1], m0[order[n - 1]], vals[n - 1], states[n - 1], states[n - 1 + 1], keeps[n - 1]));
        if states[n - 1] is Some && vals[n - 1] == m0[k] && states[n] == states[n - 1] && keeps[n - 1] {
            // skipped: the id was found in an earlier bucket (or before this map was visited), so this bucket does not hold it
            if seen_id(m0, order, n - 1, id) {
                let j = choose|j: int| 0 <= j < n - 1 && holds_id(m0[#[trigger] order[j]], id);
                assert(order.contains(order[j])); assert(m0.contains_key(order[j]));
                assert(!holds_id(m0[k], id)) by { if holds_id(m0[k], id) { assert(order[j] == k); assert(order[j] == order[n - 1]); } }
                assert(0 <= j < n && holds_id(m0[order[j]], id));
                assert(seen_id(m0, order, n, id));
            } else {
                assert(s0 is Some);
                assert(!holds_id(m0[k], id)) by { if holds_id(m0[k], id) { let y = choose|y: RouteRef<T>| #[trigger] m0[k].holds(y) && rid(*y) == id; assert(map_holds_id(m0, id)); } }
                if seen_id(m0, order, n, id) { let j = choose|j: int| 0 <= j < n && holds_id(m0[#[trigger] order[j]], id); assert(j < n - 1); assert(seen_id(m0, order, n - 1, id)); }
            }
            assert(removed_rel2(m0[k], vals[n - 1], id));
        } else {
            let r = choose|r: Option<RouteRef<T>>| #[trigger] removed_rel(m0[k], vals[n - 1], id, r) && states[n] == (if r is Some { r } else { states[n - 1] }) && (!keeps[n - 1] ==> vals[n - 1].cnt() == 0);
            if r is Some { assert(m0[k].holds(r.unwrap())); assert(holds_id(m0[k], id)); assert(seen_id(m0, order, n, id)); assert(map_holds(m0, r.unwrap())); }
            else {
                assert(!holds_id(m0[k], id));
                if seen_id(m0, order, n, id) { let j = choose|j: int| 0 <= j < n && holds_id(m0[#[trigger] order[j]], id); assert(j < n - 1); assert(seen_id(m0, order, n - 1, id)); }
            }
            if seen_id(m0, order, n - 1, id) { let j = choose|j: int| 0 <= j < n - 1 && holds_id(m0[#[trigger] order[j]], id); assert(0 <= j < n && holds_id(m0[order[j]], id)); }
            assert(removed_rel2(m0[k], vals[n - 1], id));
            assert(!keeps[n - 1] ==> vals[n - 1].cnt() == 0);
        }
        assert(step_ok(m0, order, vals, keeps, id, n - 1));
        assert forall|i: int| 0 <= i < n implies #[trigger] step_ok(m0, order, vals, keeps, id, i) by { if i < n - 1 { } }
    }
}
pub proof fn lemma_chain_removed_t<K, T, S: Store<T>>(m0: Map<K, S>, m1: Map<K, S>, s0: Option<RouteRef<T>>, s1: Option<RouteRef<T>>, id: Seq<char>)
    requires chain(m0, m1, s0, s1, post_rm_t::<K, T, S>(id)), map_wf(m0), map_uniq(m0), s0 is Some ==> !map_holds_id(m0, id),
    ensures entries_removed(m0, m1, id),
        map_holds_id(m0, id) ==> (s1 matches Some(x) && rid(*x) == id && map_holds(m0, x)),
        !map_holds_id(m0, id) ==> s1 == s0,
{
    let post = post_rm_t::<K, T, S>(id);
    let (order, states, vals, keeps) = choose|order: Seq<K>, states: Seq<Option<RouteRef<T>>>, vals: Seq<S>, keeps: Seq<bool>| chain_w(m0, m1, s0, s1, post, order, states, vals, keeps);
    let n = order.len() as int;
    assert(one_bucket(m0, id)) by {
        assert forall|k1: K, k2: K| m0.contains_key(k1) && m0.contains_key(k2) && #[trigger] holds_id(m0[k1], id) && #[trigger] holds_id(m0[k2], id) implies k1 == k2 by {
            let x = choose|y: RouteRef<T>| #[trigger] m0[k1].holds(y) && rid(*y) == id; let y = choose|y: RouteRef<T>| #[trigger] m0[k2].holds(y) && rid(*y) == id;
            assert(m0[k1].holds(x) && m0[k2].holds(y));
        }
    }
    lemma_chain_state_t(m0, m1, s0, s1, id, order, states, vals, keeps, n);
    assert forall|k: K| #[trigger] m1.contains_key(k) implies m0.contains_key(k) && removed_rel2(m0[k], m1[k], id) by {
        assert(order.contains(k)); let i = choose|i: int| 0 <= i < order.len() && order[i] == k;
        assert(keeps[i]) by { if !keeps[i] { assert(!m1.contains_key(order[i])); } }
        assert(m1.contains_key(order[i]) && m1[order[i]] == vals[i]);
        assert(step_ok(m0, order, vals, keeps, id, i));
    }
    assert forall|k: K| m0.contains_key(k) && !#[trigger] m1.contains_key(k) implies exists|v1: S| #[trigger] removed_rel2(m0[k], v1, id) && v1.cnt() == 0 by {
        assert(order.contains(k)); let i = choose|i: int| 0 <= i < order.len() && order[i] == k;
        assert(!keeps[i]) by { if keeps[i] { assert(m1.contains_key(order[i])); } }
        assert(step_ok(m0, order, vals, keeps, id, i));
    }
    if map_holds_id(m0, id) {
        let (k, y) = choose|k: K, y: RouteRef<T>| m0.contains_key(k) && #[trigger] m0[k].holds(y) && rid(*y) == id;
        assert(order.contains(k)); let i = choose|i: int| 0 <= i < order.len() && order[i] == k;
        assert(holds_id(m0[order[i]], id)); assert(seen_id(m0, order, n, id));
    }
    if seen_id(m0, order, n, id) {
        let j = choose|j: int| 0 <= j < n && holds_id(m0[#[trigger] order[j]], id);
        assert(order.contains(order[j])); assert(m0.contains_key(order[j]));
        let y = choose|y: RouteRef<T>| #[trigger] m0[order[j]].holds(y) && rid(*y) == id;
        assert(map_holds_id(m0, id));
    }
}
// ---- R14: `for v in map.values_mut() { BODY }` / `for v in tree.iter_mut() { BODY }` where BODY updates ONE captured local (the cache budget).
// vstd has no iterator model for these; the generator lifts the loop body into a closure over (&mut value, &mut state) and routes it through
// a helper whose body is the original loop applied to the lifted closure. ASSUMED (trusted, listed): the loop visits every value exactly
// once, in some order, threading the state through; keys are untouched. The loop BODY is the real code and is verified in place.
pub open spec fn vchain<K, V, St>(m0: Map<K, V>, m1: Map<K, V>, s0: St, s1: St, post: spec_fn(V, V, St, St) -> bool) -> bool {
    exists|order: Seq<K>, states: Seq<St>| vchain_w(m0, m1, s0, s1, post, order, states)
}
pub open spec fn vchain_w<K, V, St>(m0: Map<K, V>, m1: Map<K, V>, s0: St, s1: St, post: spec_fn(V, V, St, St) -> bool, order: Seq<K>, states: Seq<St>) -> bool {
    &&& order.no_duplicates() && (forall|k: K| m0.contains_key(k) <==> #[trigger] order.contains(k))
    &&& forall|k: K| #[trigger] m1.contains_key(k) <==> m0.contains_key(k)
    &&& states.len() == order.len() + 1 && states[0] == s0 && states[order.len() as int] == s1
    &&& forall|i: int| 0 <= i < order.len() ==> post(m0[#[trigger] order[i]], m1[order[i]], states[i], states[i + 1])
}
pub open spec fn is_val<K, V>(m: Map<K, V>, v: V) -> bool { exists|k: K| m.contains_key(k) && #[trigger] m[k] == v }
#[verifier::external_body]
pub fn vf_values_mut_st<K, V, St, F: FnMut(&mut V, &mut St)>(m: &mut HashMap<K, V>, st: &mut St, f: F, post: Ghost<spec_fn(V, V, St, St) -> bool>)
    requires forall|v: &mut V, s: &mut St| is_val(old(m)@, *v) ==> #[trigger] f.requires((v, s)),
        forall|v: &mut V, s: &mut St| is_val(old(m)@, *v) && #[trigger] f.ensures((v, s), ()) ==> post@(*v, *final(v), *s, *final(s)),
    ensures vchain(old(m)@, final(m)@, *old(st), *final(st), post@),
{ /* verbatim: for PAT in RECV.values_mut() { f(PAT, &mut VAR) } */ let mut f = f; for v in m.values_mut() { f(v, st) } }
#[verifier::external_body]
pub fn vf_bvalues_mut_st<K: std::cmp::Ord, V, St, F: FnMut(&mut V, &mut St)>(m: &mut BTreeMap<K, V>, st: &mut St, f: F, post: Ghost<spec_fn(V, V, St, St) -> bool>)
    requires forall|v: &mut V, s: &mut St| is_val(old(m)@, *v) ==> #[trigger] f.requires((v, s)),
        forall|v: &mut V, s: &mut St| is_val(old(m)@, *v) && #[trigger] f.ensures((v, s), ()) ==> post@(*v, *final(v), *s, *final(s)),
    ensures vchain(old(m)@, final(m)@, *old(st), *final(st), post@),
{ /* verbatim: for PAT in RECV.values_mut() { f(PAT, &mut VAR) } */ let mut f = f; for v in m.values_mut() { f(v, st) } }
// what one step of a cache loop guarantees: the bucket stores the same routes under the same invariant; the budget does not grow
pub open spec fn same_store<T, S: Store<T>>(v0: S, v1: S) -> bool {
    v1.wf() && v1.cnt() == v0.cnt() && forall|x: RouteRef<T>| #![trigger v1.holds(x)] #![trigger v0.holds(x)] v1.holds(x) <==> v0.holds(x)
}
pub open spec fn post_cache<T, S: Store<T>>() -> spec_fn(S, S, u64, u64) -> bool {
    |v0: S, v1: S, s0: u64, s1: u64| v0.wf() ==> same_store(v0, v1) && s1 <= s0
}
pub open spec fn entries_same<K, T, S: Store<T>>(m0: Map<K, S>, m1: Map<K, S>) -> bool {
    &&& forall|k: K| #[trigger] m1.contains_key(k) <==> m0.contains_key(k)
    &&& forall|k: K| m0.contains_key(k) ==> same_store(m0[k], #[trigger] m1[k])
}
pub proof fn lemma_vchain_budget<K, T, S: Store<T>>(m0: Map<K, S>, m1: Map<K, S>, s0: u64, s1: u64, order: Seq<K>, states: Seq<u64>, n: int)
    requires vchain_w(m0, m1, s0, s1, post_cache::<T, S>(), order, states), map_wf(m0), 0 <= n <= order.len(),
    ensures states[n] <= s0,
    decreases n,
{
    if n > 0 {
        lemma_vchain_budget::<K, T, S>(m0, m1, s0, s1, order, states, n - 1);
        let k = order[n - 1]; assert(order.contains(k)); assert(m0.contains_key(k)); assert(m0[k].wf());
        assert(post_cache::<T, S>()(m0[order[n - 1]], m1[order[n - 1]], states[n - 1], states[n - 1 + 1]));
    }
}
pub proof fn lemma_vchain_cached<K, T, S: Store<T>>(m0: Map<K, S>, m1: Map<K, S>, s0: u64, s1: u64)
    requires vchain(m0, m1, s0, s1, post_cache::<T, S>()), map_wf(m0),
    ensures entries_same(m0, m1), s1 <= s0,
{
    let (order, states) = choose|order: Seq<K>, states: Seq<u64>| vchain_w(m0, m1, s0, s1, post_cache::<T, S>(), order, states);
    lemma_vchain_budget::<K, T, S>(m0, m1, s0, s1, order, states, order.len() as int);
    assert forall|k: K| m0.contains_key(k) implies same_store(m0[k], #[trigger] m1[k]) by {
        assert(order.contains(k)); let i = choose|i: int| 0 <= i < order.len() && order[i] == k; assert(m0[k].wf());
        assert(post_cache::<T, S>()(m0[order[i]], m1[order[i]], states[i], states[i + 1]));
    }
}
// a map whose buckets all store the same routes as before: every map-level fact the layer invariants use carries over
pub proof fn lemma_map_same<K, T, S: Store<T>>(m0: Map<K, S>, m1: Map<K, S>, kf: spec_fn(K, RouteRef<T>) -> bool)
    requires entries_same(m0, m1), map_wf(m0),
    ensures map_wf(m1), msum(m1, cnt_of::<T, S>()) == msum(m0, cnt_of::<T, S>()),
        forall|x: RouteRef<T>| #![trigger map_holds(m1, x)] #![trigger map_holds(m0, x)] map_holds(m1, x) <==> map_holds(m0, x),
        map_keyed(m0, kf) ==> map_keyed(m1, kf), map_complete(m0, kf) ==> map_complete(m1, kf),
{
    let f = cnt_of::<T, S>();
    assert(m1.dom() =~= m0.dom());
    lemma_msum_sub(m0, m1, f);
    assert forall|x: RouteRef<T>| #![trigger map_holds(m1, x)] #![trigger map_holds(m0, x)] map_holds(m1, x) <==> map_holds(m0, x) by {
        if map_holds(m1, x) { let k = choose|k: K| m1.contains_key(k) && #[trigger] m1[k].holds(x); assert(m0.contains_key(k) && m0[k].holds(x)); }
        if map_holds(m0, x) { let k = choose|k: K| m0.contains_key(k) && #[trigger] m0[k].holds(x); assert(m1.contains_key(k) && m1[k].holds(x)); }
    }
    if map_keyed(m0, kf) { assert forall|k: K, x: RouteRef<T>| m1.contains_key(k) && #[trigger] m1[k].holds(x) implies kf(k, x) by { assert(m0[k].holds(x)); } }
    if map_complete(m0, kf) {
        assert forall|k: K, x: RouteRef<T>| #![trigger kf(k, x), map_holds(m1, x)] kf(k, x) && map_holds(m1, x) implies m1.contains_key(k) && m1[k].holds(x) by {
            assert(map_holds(m0, x)); assert(m0.contains_key(k) && m0[k].holds(x));
        }
    }
}
// same stored routes under the invariant ==> same answers (C12 for the lower layer, from its exactness)
pub proof fn lemma_sub_same_answers<T>(a: Sub<T>, b: Sub<T>, q: Request)
    requires a.wf(), same_store(a, b),
    ensures forall|x: RouteRef<T>| sub_answers(a, q, x) <==> sub_answers(b, q, x),
{ lemma_sub_exact(a, q); lemma_sub_exact(b, q); }
// ================================================================ scheme layer
//@@ rename HostMatcher Sub
//@@ item src/router/request_matcher/scheme.rs :: struct SchemeMatcher
pub open spec fn sch_kf<T>() -> spec_fn(String, RouteRef<T>) -> bool { |k: String, x: RouteRef<T>| rscheme(*x) == Some(k@) }
pub open spec fn sch_any_ok<T>(x: RouteRef<T>) -> bool { rscheme(*x) matches Some(s) ==> s.len() == 0 }
impl<T> SchemeMatcher<T> {
    pub open spec fn sholds(&self, x: RouteRef<T>) -> bool { self.any_scheme.holds(x) || map_holds(self.schemes@, x) }
    pub open spec fn swf(&self) -> bool {
        &&& self.any_scheme.wf() && map_wf(self.schemes@)
        &&& forall|k: String| #[trigger] self.schemes@.contains_key(k) ==> k@.len() > 0
        &&& self.count == self.any_scheme.cnt() + msum(self.schemes@, cnt_of::<T, Sub<T>>())
        // live ids are unique
        &&& forall|x: RouteRef<T>, y: RouteRef<T>| #[trigger] self.sholds(x) && #[trigger] self.sholds(y) && rid(*x) == rid(*y) ==> x == y
        // bucket-key consistency: a route filed under scheme k has scheme k; a route filed under "any" has no (or the empty) scheme
        &&& map_keyed(self.schemes@, sch_kf::<T>())
        &&& forall|x: RouteRef<T>| #[trigger] self.any_scheme.holds(x) ==> sch_any_ok(x)
    }
}
impl<T> Store<T> for SchemeMatcher<T> {
    open spec fn holds(&self, x: RouteRef<T>) -> bool { self.sholds(x) }
    open spec fn cnt(&self) -> nat { self.count as nat }
    open spec fn wf(&self) -> bool { self.swf() }
}
pub proof fn lemma_scheme_uniq_bridge<T>(n: SchemeMatcher<T>)
    requires uniq(n),
    ensures forall|x: RouteRef<T>, y: RouteRef<T>| #[trigger] n.sholds(x) && #[trigger] n.sholds(y) && rid(*x) == rid(*y) ==> x == y,
{
    assert forall|x: RouteRef<T>, y: RouteRef<T>| #[trigger] n.sholds(x) && #[trigger] n.sholds(y) && rid(*x) == rid(*y) implies x == y by { assert(n.holds(x) && n.holds(y)); }
}
pub proof fn lemma_sub_empty<T>()
    ensures forall|v: Sub<T>| v.wf() && v.cnt() == 0 ==> forall|x: RouteRef<T>| !#[trigger] v.holds(x),
{
    assert forall|v: Sub<T>| v.wf() && v.cnt() == 0 implies forall|x: RouteRef<T>| !#[trigger] v.holds(x) by { lemma_sub_wf(v); }
}
pub proof fn lemma_scheme_map_uniq<T>(s: SchemeMatcher<T>)
    requires s.wf(),
    ensures map_uniq(s.schemes@),
{
    axiom_string_ext();
    let m = s.schemes@;
    assert forall|k1: String, k2: String, x: RouteRef<T>, y: RouteRef<T>| m.contains_key(k1) && m.contains_key(k2) && #[trigger] m[k1].holds(x) && #[trigger] m[k2].holds(y) && rid(*x) == rid(*y) implies x == y && k1 == k2 by {
        assert(map_holds(m, x) && map_holds(m, y)); assert(s.holds(x) && s.holds(y));
        assert(sch_kf::<T>()(k1, x) && sch_kf::<T>()(k2, y));
    }
}
pub proof fn lemma_uniq_inserted<T, S: Store<T>>(o: S, n: S, rt: RouteRef<T>)
    requires uniq(o), forall|x: RouteRef<T>| o.holds(x) ==> rid(*x) != rid(*rt), forall|x: RouteRef<T>| #![trigger n.holds(x)] n.holds(x) <==> o.holds(x) || x == rt,
    ensures uniq(n),
{
    assert forall|x: RouteRef<T>, y: RouteRef<T>| #[trigger] n.holds(x) && #[trigger] n.holds(y) && rid(*x) == rid(*y) implies x == y by {
        if x != rt && y != rt { assert(o.holds(x) && o.holds(y)); } else if x != rt { assert(o.holds(x)); } else if y != rt { assert(o.holds(y)); }
    }
}
pub proof fn lemma_uniq_subset<T, S: Store<T>>(o: S, n: S)
    requires uniq(o), forall|x: RouteRef<T>| #[trigger] n.holds(x) ==> o.holds(x),
    ensures uniq(n),
{
    assert forall|x: RouteRef<T>, y: RouteRef<T>| #[trigger] n.holds(x) && #[trigger] n.holds(y) && rid(*x) == rid(*y) implies x == y by { assert(o.holds(x) && o.holds(y)); }
}
// the route went to the "any scheme" bucket
pub proof fn lemma_scheme_inserted_any<T>(o: SchemeMatcher<T>, n: SchemeMatcher<T>, rt: RouteRef<T>)
    requires o.wf(), forall|x: RouteRef<T>| o.holds(x) ==> rid(*x) != rid(*rt), n.schemes@ == o.schemes@, inserted_rel(o.any_scheme, n.any_scheme, rt), n.count == o.count + 1, sch_any_ok(rt),
    ensures inserted_rel(o, n, rt),
{
    assert forall|x: RouteRef<T>| #![trigger n.holds(x)] #![trigger o.holds(x)] n.holds(x) <==> o.holds(x) || x == rt by {}
    lemma_uniq_inserted(o, n, rt);
    assert forall|x: RouteRef<T>| #[trigger] n.any_scheme.holds(x) implies sch_any_ok(x) by { if x != rt { assert(o.any_scheme.holds(x)); } }
    lemma_scheme_uniq_bridge(n);
}
// the route went to the bucket of its (non-empty) scheme
pub proof fn lemma_scheme_inserted_bucket<T>(o: SchemeMatcher<T>, n: SchemeMatcher<T>, rt: RouteRef<T>, key: String)
    requires o.wf(), forall|x: RouteRef<T>| o.holds(x) ==> rid(*x) != rid(*rt), n.any_scheme == o.any_scheme, n.count == o.count + 1, key@.len() > 0, rscheme(*rt) == Some(key@),
        n.schemes@.contains_key(key), n.schemes@ == o.schemes@.insert(key, n.schemes@[key]), n.schemes@[key].wf(),
        forall|x: RouteRef<T>| #![trigger n.schemes@[key].holds(x)] n.schemes@[key].holds(x) <==> (o.schemes@.contains_key(key) && o.schemes@[key].holds(x)) || x == rt,
        n.schemes@[key].cnt() == (if o.schemes@.contains_key(key) { o.schemes@[key].cnt() } else { 0 }) + 1,
    ensures inserted_rel(o, n, rt),
{
    assert(sch_kf::<T>()(key, rt));
    lemma_map_inserted(o.schemes@, n.schemes@, key, rt, sch_kf::<T>());
    assert forall|x: RouteRef<T>| #![trigger n.holds(x)] #![trigger o.holds(x)] n.holds(x) <==> o.holds(x) || x == rt by {}
    lemma_uniq_inserted(o, n, rt);
    assert forall|k: String| #[trigger] n.schemes@.contains_key(k) implies k@.len() > 0 by { if k != key { assert(o.schemes@.contains_key(k)); } }
    lemma_scheme_uniq_bridge(n);
}
pub proof fn lemma_scheme_removed_any<T>(o: SchemeMatcher<T>, n: SchemeMatcher<T>, id: Seq<char>, x0: RouteRef<T>)
    requires o.wf(), n.schemes@ == o.schemes@, removed_rel(o.any_scheme, n.any_scheme, id, Some(x0)), n.count == o.count - 1, o.count >= 1,
    ensures removed_rel(o, n, id, Some(x0)),
{
    assert(o.holds(x0));
    assert forall|y: RouteRef<T>| #![trigger n.holds(y)] #![trigger o.holds(y)] n.holds(y) <==> o.holds(y) && rid(*y) != id by {
        if o.holds(y) && rid(*y) == id { assert(y == x0); }
    }
    lemma_uniq_subset(o, n);
    assert forall|x: RouteRef<T>| #[trigger] n.any_scheme.holds(x) implies sch_any_ok(x) by { assert(o.any_scheme.holds(x)); }
    lemma_scheme_uniq_bridge(n);
}
pub proof fn lemma_scheme_removed<T>(o: SchemeMatcher<T>, n: SchemeMatcher<T>, id: Seq<char>, r: Option<RouteRef<T>>)
    requires o.wf(), removed_rel(o.any_scheme, n.any_scheme, id, None::<RouteRef<T>>), entries_removed(o.schemes@, n.schemes@, id),
        r matches Some(x) ==> rid(*x) == id && map_holds(o.schemes@, x), r is None ==> !map_holds_id(o.schemes@, id),
        n.count + (if r is Some { 1int } else { 0int }) == o.count,
    ensures removed_rel(o, n, id, r),
{
    lemma_scheme_map_uniq(o); lemma_sub_empty::<T>();
    lemma_map_removed(o.schemes@, n.schemes@, id, sch_kf::<T>());
    if r is Some { let x = r.unwrap(); let k = choose|k: String| o.schemes@.contains_key(k) && #[trigger] o.schemes@[k].holds(x); assert(map_holds_id(o.schemes@, id)); assert(o.holds(x)); }
    assert forall|y: RouteRef<T>| #![trigger n.holds(y)] #![trigger o.holds(y)] n.holds(y) <==> o.holds(y) && rid(*y) != id by {
        if o.any_scheme.holds(y) { assert(holds_id(o.any_scheme, id) || rid(*y) != id); }
    }
    if r is None {
        assert forall|y: RouteRef<T>| #[trigger] o.holds(y) implies rid(*y) != id by {
            if o.any_scheme.holds(y) { assert(holds_id(o.any_scheme, id) || rid(*y) != id); }
            if map_holds(o.schemes@, y) { let k = choose|k: String| o.schemes@.contains_key(k) && #[trigger] o.schemes@[k].holds(y); assert(map_holds_id(o.schemes@, id) || rid(*y) != id); }
        }
    }
    lemma_uniq_subset(o, n);
    assert forall|k: String| #[trigger] n.schemes@.contains_key(k) implies k@.len() > 0 by { assert(o.schemes@.contains_key(k)); }
    assert forall|x: RouteRef<T>| #[trigger] n.any_scheme.holds(x) implies sch_any_ok(x) by { assert(o.any_scheme.holds(x)); }
    lemma_scheme_uniq_bridge(n);
}
pub proof fn lemma_scheme_cached<T>(o: SchemeMatcher<T>, n: SchemeMatcher<T>)
    requires o.wf(), same_store(o.any_scheme, n.any_scheme), entries_same(o.schemes@, n.schemes@), n.count == o.count,
    ensures same_store(o, n),
{
    lemma_map_same(o.schemes@, n.schemes@, sch_kf::<T>());
    assert forall|x: RouteRef<T>| #![trigger n.holds(x)] #![trigger o.holds(x)] n.holds(x) <==> o.holds(x) by {}
    lemma_uniq_subset(o, n);
    assert forall|k: String| #[trigger] n.schemes@.contains_key(k) implies k@.len() > 0 by { assert(o.schemes@.contains_key(k)); }
    assert forall|x: RouteRef<T>| #[trigger] n.any_scheme.holds(x) implies sch_any_ok(x) by { assert(o.any_scheme.holds(x)); }
    lemma_scheme_uniq_bridge(n);
}
pub proof fn lemma_scheme_batched<T>(o: SchemeMatcher<T>, n: SchemeMatcher<T>, ids: Set<String>)
    requires o.wf(), batched_rel(o.any_scheme, n.any_scheme, ids), entries_batched(o.schemes@, n.schemes@, ids), n.count == o.count,
    ensures batched_rel(o, n, ids),
{
    lemma_sub_empty::<T>();
    lemma_map_batched(o.schemes@, n.schemes@, ids, sch_kf::<T>());
    assert forall|y: RouteRef<T>| #![trigger n.holds(y)] #![trigger o.holds(y)] n.holds(y) <==> o.holds(y) && !ids_has(ids, rid(*y)) by {}
    lemma_uniq_subset(o, n);
    assert forall|k: String| #[trigger] n.schemes@.contains_key(k) implies k@.len() > 0 by { assert(o.schemes@.contains_key(k)); }
    assert forall|x: RouteRef<T>| #[trigger] n.any_scheme.holds(x) implies sch_any_ok(x) by { assert(o.any_scheme.holds(x)); }
    lemma_scheme_uniq_bridge(n);
}
// what the scheme layer answers, read off its buckets (statement): any-scheme rules, plus the bucket of exactly the request's scheme
pub open spec fn scheme_answers<T>(m: SchemeMatcher<T>, q: Request, x: RouteRef<T>) -> bool {
    sub_answers(m.any_scheme, q, x) || (req_scheme(q) matches Some(sc) && exists|k: String| k@ == sc && m.schemes@.contains_key(k) && #[trigger] sub_answers(m.schemes@[k], q, x))
}
// the scheme trigger of a rule: no (or the empty) scheme, or exactly the request's scheme
pub open spec fn scheme_sat<T>(x: RouteRef<T>, q: Request) -> bool { match rscheme(*x) { None => true, Some(sc) => sc.len() == 0 || req_scheme(q) == Some(sc) } }
// EXACTNESS of the scheme layer (C01; with the mutator laws of C02 this makes the answers a function of the stored set, i.e. equal to
// those of a router rebuilt from the same rules): a rule is reported iff it is stored, its scheme trigger holds and the triggers below hold
pub proof fn lemma_scheme_exact<T>(m: SchemeMatcher<T>, q: Request)
    requires m.wf(),
    ensures forall|x: RouteRef<T>| #[trigger] scheme_answers(m, q, x) <==> m.holds(x) && scheme_sat(x, q) && sat_below(x, q),
{
    axiom_string_ext();
    lemma_sub_exact(m.any_scheme, q);
    assert forall|x: RouteRef<T>| #[trigger] scheme_answers(m, q, x) <==> m.holds(x) && scheme_sat(x, q) && sat_below(x, q) by {
        if scheme_answers(m, q, x) && !sub_answers(m.any_scheme, q, x) {
            let sc = req_scheme(q).unwrap(); let k = choose|k: String| k@ == sc && m.schemes@.contains_key(k) && #[trigger] sub_answers(m.schemes@[k], q, x);
            lemma_sub_exact(m.schemes@[k], q); assert(m.schemes@[k].holds(x)); assert(map_holds(m.schemes@, x)); assert(sch_kf::<T>()(k, x));
        }
        if sub_answers(m.any_scheme, q, x) { assert(m.any_scheme.holds(x)); assert(sch_any_ok(x)); }
        if m.holds(x) && scheme_sat(x, q) && sat_below(x, q) {
            if m.any_scheme.holds(x) { assert(sub_answers(m.any_scheme, q, x)); }
            else { let k = choose|k: String| m.schemes@.contains_key(k) && #[trigger] m.schemes@[k].holds(x); assert(sch_kf::<T>()(k, x)); assert(k@.len() > 0); lemma_sub_exact(m.schemes@[k], q); assert(sub_answers(m.schemes@[k], q, x)); assert(req_scheme(q) == Some(k@)); }
        }
    }
}
impl<T> SchemeMatcher<T> {
    //@@ fn src/router/request_matcher/scheme.rs :: impl <T>SchemeMatcher<T> / fn new -> r
    //@| ensures r.wf(), r.cnt() == 0, forall|x: RouteRef<T>| !r.holds(x),
    //@| entry broadcast use group_hash_axioms; broadcast use axiom_string_key_model;

    //@@ fn src/router/request_matcher/scheme.rs :: impl <T>SchemeMatcher<T> / fn insert
    //@| requires old(self).wf(), old(self).cnt() < usize::MAX, forall|x: RouteRef<T>| old(self).holds(x) ==> rid(*x) != rid(*route),
    //@| ensures inserted_rel(*old(self), *final(self), route),
    //@| entry broadcast use group_hash_axioms; broadcast use axiom_string_key_model; broadcast use axiom_borrow_str_contains; broadcast use axiom_borrow_str_maps; broadcast use axiom_borrow_str_upd;
    //@|     let ghost m0 = self.schemes@; let ghost f = cnt_of::<T, Sub<T>>(); let ghost rt = route; let ghost rsc = rscheme_of(rt);
    //@|     proof { axiom_string_ext(); lemma_sub_wf(self.any_scheme); lit_empty(); }
    //@| exit proof { if rsc is None || rsc.unwrap().len() == 0 { lemma_scheme_inserted_any(*old(self), *self, rt); } }
    //@| before `self.schemes.get_mut(scheme).unwrap().insert(route);`: let ghost m1 = self.schemes@;
    //@|     proof {
    //@|         let key = choose|key: String| key@ == scheme@ && m1.contains_key(key);
    //@|         assert(m1[key].wf()); lemma_sub_wf(m1[key]);
    //@|         if m0.contains_key(key) { assert(m1 == m0); lemma_msum_remove(m0, f, key); assert forall|x: RouteRef<T>| m1[key].holds(x) implies rid(*x) != rid(*route) by { assert(map_holds(m0, x)); assert(old(self).holds(x)); } }
    //@|         else { assert(m1 == m0.insert(key, m1[key])); }
    //@|     }
    //@| after `self.schemes.get_mut(scheme).unwrap().insert(route);`: proof {
    //@|     let key = choose|key: String| key@ == scheme@ && m1.contains_key(key);
    //@|     assert(self.schemes@ == m1.insert(key, self.schemes@[key]));
    //@|     assert(self.schemes@ =~= m0.insert(key, self.schemes@[key]));
    //@|     lemma_scheme_inserted_bucket(*old(self), *self, rt, key);
    //@| }

    //@@ fn src/router/request_matcher/scheme.rs :: impl <T>SchemeMatcher<T> / fn remove -> r
    //@| requires old(self).wf(),
    //@| ensures removed_rel(*old(self), *final(self), id@, r),
    //@| statelift `self.schemes.retain(|_, matcher|` var `removed` helper `vf_retain_st` header `|_k: &String, matcher: &mut Sub<T>, vf_st: &mut Option<RouteRef<T>>| -> (b: bool) requires old(matcher).wf() ensures ((*old(vf_st)) is Some && *final(matcher) == *old(matcher) && *final(vf_st) == *old(vf_st) && b) || (exists|r: Option<RouteRef<T>>| #[trigger] removed_rel(*old(matcher), *final(matcher), id@, r) && *final(vf_st) == (if r is Some { r } else { *old(vf_st) }) && (!b ==> final(matcher).cnt() == 0))` ghost `Ghost(post_rm_t::<String, T, Sub<T>>(id@))`
    //@| before `self.schemes.retain(`: let ghost vf_m0 = self.schemes@; let ghost vf_r0 = removed;
    //@| after `!matcher.is_empty() });`#0: proof { lemma_scheme_map_uniq(*old(self)); lemma_chain_removed_t(vf_m0, self.schemes@, vf_r0, removed, id@); }
    //@| entry broadcast use group_hash_axioms; broadcast use axiom_string_key_model;
    //@|     proof { axiom_string_ext(); }
    //@| before `return removed;`: proof { lemma_scheme_removed_any(*old(self), *self, id@, removed.unwrap()); }
    //@| after `!matcher.is_empty() });`#0: proof {
    //@|     lemma_scheme_map_uniq(*old(self)); lemma_sub_empty::<T>();
    //@|     lemma_map_removed(old(self).schemes@, self.schemes@, id@, sch_kf::<T>());
    //@|     if removed is Some { let x = removed.unwrap(); let k = choose|k: String| old(self).schemes@.contains_key(k) && #[trigger] old(self).schemes@[k].holds(x); assert(map_holds_id(old(self).schemes@, id@)); }
    //@| }
    //@| exit proof { lemma_scheme_removed(*old(self), *self, id@, removed); }

    //@@ fn src/router/request_matcher/scheme.rs :: impl <T>SchemeMatcher<T> / fn batch_remove -> r
    //@| requires old(self).wf(),
    //@| ensures batched_rel(*old(self), *final(self), ids@),
    //@| closure `|_, matcher|` => `|_k: &String, matcher: &mut Sub<T>| -> (b: bool) requires old(matcher).wf() ensures batched_rel(*old(matcher), *final(matcher), ids@), !b ==> final(matcher).cnt() == 0`
    //@| entry broadcast use group_hash_axioms; broadcast use axiom_string_key_model;
    //@|     proof { axiom_string_ext(); }
    //@| exit proof { lemma_scheme_batched(*old(self), *self, ids@); }

    // C01 (scheme layer): rules for any scheme, plus the rules filed under exactly the request's scheme
    //@@ fn src/router/request_matcher/scheme.rs :: impl <T>SchemeMatcher<T> / fn match_request -> r
    //@| requires self.wf(),
    //@| ensures forall|x: RouteRef<T>| #[trigger] r@.contains(x) <==> scheme_answers(*self, *request, x),
    //@|     // each reported rule is reported exactly once
    //@|     r@.no_duplicates(),
    //@| entry broadcast use group_hash_axioms; broadcast use axiom_string_key_model; broadcast use axiom_borrow_str_contains; broadcast use axiom_borrow_str_maps;
    //@|     proof { axiom_string_ext(); lemma_sub_exact(self.any_scheme, *request); }
    //@| before `routes.extend(matcher.match_request(request));`: proof {
    //@|     lemma_sub_exact(*matcher, *request);
    //@|     let k = choose|k: String| k@ == scheme@ && self.schemes@.contains_key(k) && self.schemes@[k] == *matcher;
    //@|     assert forall|x: RouteRef<T>| !(sub_answers(self.any_scheme, *request, x) && sub_answers(*matcher, *request, x)) by {
    //@|         if sub_answers(self.any_scheme, *request, x) && sub_answers(*matcher, *request, x) { assert(self.any_scheme.holds(x) && self.schemes@[k].holds(x)); assert(sch_any_ok(x)); assert(sch_kf::<T>()(k, x)); assert(k@.len() > 0); }
    //@|     }
    //@| }
    //@| outline `routes.extend(matcher.match_request(request));` => `ext_routes(&mut routes, matcher.match_request(request));`

    // C12 / C02 (scheme layer): warming the cache keeps the invariant and the stored set (hence every answer: c12_scheme_cache); budget never grows
    //@@ fn src/router/request_matcher/scheme.rs :: impl <T>SchemeMatcher<T> / fn cache -> r
    //@| requires old(self).wf(),
    //@| ensures same_store(*old(self), *final(self)), r <= limit,
    //@| forlift `for matcher in self.schemes.values_mut() {` var `new_limit` helper `vf_values_mut_st` header `|matcher: &mut Sub<T>, vf_st: &mut u64| requires old(matcher).wf() ensures same_store(*old(matcher), *final(matcher)), *final(vf_st) <= *old(vf_st)` ghost `Ghost(post_cache::<T, Sub<T>>())`
    //@| entry broadcast use group_hash_axioms; broadcast use axiom_string_key_model;
    //@| before `for matcher in self.schemes.values_mut() {`: let ghost vf_m0 = self.schemes@; let ghost vf_l0 = new_limit;
    //@| exit proof { lemma_vchain_cached::<String, T, Sub<T>>(vf_m0, self.schemes@, vf_l0, new_limit); lemma_scheme_cached(*old(self), *self); }

    //@@ fn src/router/request_matcher/scheme.rs :: impl <T>SchemeMatcher<T> / fn len -> r
    //@| ensures r == self.cnt(),
    //@@ fn src/router/request_matcher/scheme.rs :: impl <T>SchemeMatcher<T> / fn is_empty -> r
    //@| ensures r == (self.cnt() == 0),
}
//@@ unrename HostMatcher

// ================================================================ host layer
// SHIM: marker strings are opaque except for their regex text; StaticOrDynamic is the real enum
pub struct MarkerString { pub regex: String, pub vf_rest: u8 }
//@@ item src/marker/mod.rs :: enum StaticOrDynamic
pub enum HostKey { NoHost, Static(Seq<char>), Dynamic(Seq<char>) }
pub uninterp spec fn rhost<T>(r: Route<T>) -> HostKey;
pub open spec fn rhost_of<T>(x: RouteRef<T>) -> HostKey { rhost(*x) }
pub open spec fn host_key(o: Option<&StaticOrDynamic>) -> HostKey {
    match o { None => HostKey::NoHost, Some(StaticOrDynamic::Static(s)) => HostKey::Static(s@), Some(StaticOrDynamic::Dynamic(m)) => HostKey::Dynamic(m.regex@) }
}
impl<T> Route<T> {
    #[verifier::external_body] pub fn host(&self) -> (r: Option<&StaticOrDynamic>) ensures host_key(r) == rhost(*self) { unimplemented!() }
}
// SHIM of the regex tree keyed by unique patterns (unit `tree` verifies the real one against its content laws; here: the induced
// pattern -> value map). ASSUMED contracts, in the shape of HashMap's.
#[verifier::external_body] #[verifier::accept_recursive_types(V)] pub struct UniqueRegexTreeMap<V> { h: std::marker::PhantomData<V> }
impl<V> UniqueRegexTreeMap<V> {
    pub uninterp spec fn tmap(&self) -> Map<Seq<char>, V>;
    #[verifier::external_body]
    pub fn new(ignore_case: bool) -> (r: Self) ensures r.tmap() == Map::<Seq<char>, V>::empty() { unimplemented!() }
    #[verifier::external_body]
    pub fn get_mut(&mut self, regex: &str) -> (r: Option<&mut V>)
        ensures match r {
            Some(v) => old(self).tmap().contains_key(regex@) && *v == old(self).tmap()[regex@] && final(self).tmap() == old(self).tmap().insert(regex@, *final(v)),
            None => !old(self).tmap().contains_key(regex@) && final(self).tmap() == old(self).tmap(),
        },
    { unimplemented!() }
    #[verifier::external_body]
    pub fn insert(&mut self, regex: &str, item: V) ensures final(self).tmap() == old(self).tmap().insert(regex@, item) { unimplemented!() }
    #[verifier::external_body]
    pub fn retain<F: Fn(&str, &mut V) -> bool>(&mut self, f: &F)
        requires forall|k: &str, v: &mut V| old(self).tmap().contains_key(k@) && *v == old(self).tmap()[k@] ==> #[trigger] f.requires((k, v)),
        ensures
            forall|p: Seq<char>| #[trigger] final(self).tmap().contains_key(p) ==> old(self).tmap().contains_key(p) && exists|k: &str, v: &mut V| k@ == p && *v == old(self).tmap()[p] && *final(v) == final(self).tmap()[p] && #[trigger] f.ensures((k, v), true),
            forall|p: Seq<char>| old(self).tmap().contains_key(p) && !#[trigger] final(self).tmap().contains_key(p) ==> exists|k: &str, v: &mut V| k@ == p && *v == old(self).tmap()[p] && #[trigger] f.ensures((k, v), false),
    { unimplemented!() }
    #[verifier::external_body]
    pub fn is_empty(&self) -> (r: bool) ensures r == (self.tmap().len() == 0) { unimplemented!() }
    // warm-up of the tree's own node / leaf regexes: the stored pattern -> value map is untouched (unit `tree` proves the real function keeps the
    // tree well-formed and observationally the same: UniqueRegexTreeMap::cache ensures same_obs), never hands back more budget than it got
    #[verifier::external_body]
    pub fn cache(&mut self, limit: u64, level: Option<u64>) -> (r: u64) ensures final(self).tmap() == old(self).tmap(), r <= limit { unimplemented!() }
}
// R14 helper for the values of the unique regex tree (same ASSUMED visiting contract as vf_values_mut_st; the tree's iter_mut / ItemIterMut are pinned)
#[verifier::external_body]
pub fn vf_tree_iter_mut_st<V, St, F: FnMut(&mut V, &mut St)>(t: &mut UniqueRegexTreeMap<V>, st: &mut St, f: F, post: Ghost<spec_fn(V, V, St, St) -> bool>)
    requires forall|v: &mut V, s: &mut St| is_val(old(t).tmap(), *v) ==> #[trigger] f.requires((v, s)),
        forall|v: &mut V, s: &mut St| is_val(old(t).tmap(), *v) && #[trigger] f.ensures((v, s), ()) ==> post@(*v, *final(v), *s, *final(s)),
    ensures vchain(old(t).tmap(), final(t).tmap(), *old(st), *final(st), post@),
{ /* verbatim: let mut f = f; for v in t.iter_mut() { f(v, st) } -- the shim type has no iter_mut; the helper stands for exactly this loop */ unimplemented!() }
// R8 outline, ASSUMED contract (trusted, listed): the three statements
//     let removed_in_regex = Cell::new(None);
//     self.regex_tree_rule.retain(&|_, matcher| { if let Some(value) = matcher.remove(id) { removed_in_regex.set(Some(value)); } !matcher.is_empty() });
//     if removed.is_none() { removed = removed_in_regex.into_inner(); }
// carry the removed route out of an Fn closure through a std::cell::Cell (interior mutability, outside Verus). Summary, same shape as
// outl_retain_remove: remove(id) is applied to every bucket of the regex tree, only a bucket that is empty afterwards is dropped, and if
// `removed` was still None it receives the route returned by one of these calls, if any returned one.
// (Before the fix of F6 this closure discarded the result; it was then verified in place and failed exactly this summary's last clause.)
#[verifier::external_body]
pub fn outl_tree_retain_remove<T>(t: &mut UniqueRegexTreeMap<Sub<T>>, id: &str, removed: &mut Option<RouteRef<T>>)
    requires map_wf(old(t).tmap()),
    ensures entries_removed(old(t).tmap(), final(t).tmap(), id@),
        *old(removed) is Some ==> *final(removed) == *old(removed),
        *old(removed) is None ==> (*final(removed) matches Some(x) ==> rid(*x) == id@ && map_holds(old(t).tmap(), x)) && (*final(removed) is None ==> !map_holds_id(old(t).tmap(), id@)),
{
    /* verbatim: let removed_in_regex = Cell::new(None); self.regex_tree_rule.retain(&|_, matcher| { if let Some(value) = matcher.remove(id) { removed_in_regex.set(Some(value)); } !matcher.is_empty() }); if removed.is_none() { removed = removed_in_regex.into_inner(); } */
    unimplemented!()
}
//@@ rename IpMatcher Sub
//@@ item src/router/request_matcher/host.rs :: struct HostMatcher
pub open spec fn hst_kf<T>() -> spec_fn(String, RouteRef<T>) -> bool { |k: String, x: RouteRef<T>| rhost(*x) == HostKey::Static(k@) }
pub open spec fn hdy_kf<T>() -> spec_fn(Seq<char>, RouteRef<T>) -> bool { |p: Seq<char>, x: RouteRef<T>| rhost(*x) == HostKey::Dynamic(p) }
pub open spec fn hst_any_ok<T>(x: RouteRef<T>) -> bool { rhost(*x) is NoHost || rhost(*x) == HostKey::Static(Seq::<char>::empty()) }
impl<T> HostMatcher<T> {
    pub open spec fn sholds(&self, x: RouteRef<T>) -> bool { self.any_host.holds(x) || map_holds(self.static_hosts@, x) || map_holds(self.regex_tree_rule.tmap(), x) }
    pub open spec fn swf(&self) -> bool {
        &&& self.any_host.wf() && map_wf(self.static_hosts@) && map_wf(self.regex_tree_rule.tmap())
        &&& forall|k: String| #[trigger] self.static_hosts@.contains_key(k) ==> k@.len() > 0
        &&& self.count == self.any_host.cnt() + msum(self.static_hosts@, cnt_of::<T, Sub<T>>()) + msum(self.regex_tree_rule.tmap(), cnt_of::<T, Sub<T>>())
        &&& forall|x: RouteRef<T>, y: RouteRef<T>| #[trigger] self.sholds(x) && #[trigger] self.sholds(y) && rid(*x) == rid(*y) ==> x == y
        // bucket-key consistency
        &&& map_keyed(self.static_hosts@, hst_kf::<T>()) && map_keyed(self.regex_tree_rule.tmap(), hdy_kf::<T>())
        &&& forall|x: RouteRef<T>| #[trigger] self.any_host.holds(x) ==> hst_any_ok(x)
    }
}
impl<T> Store<T> for HostMatcher<T> {
    open spec fn holds(&self, x: RouteRef<T>) -> bool { self.sholds(x) }
    open spec fn cnt(&self) -> nat { self.count as nat }
    open spec fn wf(&self) -> bool { self.swf() }
}
pub proof fn lemma_host_uniq_bridge<T>(n: HostMatcher<T>)
    requires uniq(n),
    ensures forall|x: RouteRef<T>, y: RouteRef<T>| #[trigger] n.sholds(x) && #[trigger] n.sholds(y) && rid(*x) == rid(*y) ==> x == y,
{
    assert forall|x: RouteRef<T>, y: RouteRef<T>| #[trigger] n.sholds(x) && #[trigger] n.sholds(y) && rid(*x) == rid(*y) implies x == y by { assert(n.holds(x) && n.holds(y)); }
}
pub proof fn lemma_host_map_uniq<T>(s: HostMatcher<T>)
    requires s.wf(),
    ensures map_uniq(s.static_hosts@), map_uniq(s.regex_tree_rule.tmap()),
        // a route with a given id lives in at most one of the three containers
        forall|x: RouteRef<T>, y: RouteRef<T>| rid(*x) == rid(*y) && #[trigger] map_holds(s.static_hosts@, x) ==> !#[trigger] map_holds(s.regex_tree_rule.tmap(), y),
        forall|x: RouteRef<T>, y: RouteRef<T>| rid(*x) == rid(*y) && #[trigger] s.any_host.holds(x) ==> !#[trigger] map_holds(s.static_hosts@, y) && !map_holds(s.regex_tree_rule.tmap(), y),
{
    axiom_string_ext();
    let m = s.static_hosts@; let t = s.regex_tree_rule.tmap();
    assert forall|k1: String, k2: String, x: RouteRef<T>, y: RouteRef<T>| m.contains_key(k1) && m.contains_key(k2) && #[trigger] m[k1].holds(x) && #[trigger] m[k2].holds(y) && rid(*x) == rid(*y) implies x == y && k1 == k2 by {
        assert(map_holds(m, x) && map_holds(m, y)); assert(s.sholds(x) && s.sholds(y)); assert(hst_kf::<T>()(k1, x) && hst_kf::<T>()(k2, y));
    }
    assert forall|k1: Seq<char>, k2: Seq<char>, x: RouteRef<T>, y: RouteRef<T>| t.contains_key(k1) && t.contains_key(k2) && #[trigger] t[k1].holds(x) && #[trigger] t[k2].holds(y) && rid(*x) == rid(*y) implies x == y && k1 == k2 by {
        assert(map_holds(t, x) && map_holds(t, y)); assert(s.sholds(x) && s.sholds(y)); assert(hdy_kf::<T>()(k1, x) && hdy_kf::<T>()(k2, y));
    }
    assert forall|x: RouteRef<T>, y: RouteRef<T>| rid(*x) == rid(*y) && #[trigger] map_holds(m, x) implies !#[trigger] map_holds(t, y) by {
        if map_holds(t, y) { assert(s.sholds(x) && s.sholds(y)); let k = choose|k: String| m.contains_key(k) && #[trigger] m[k].holds(x); let p = choose|p: Seq<char>| t.contains_key(p) && #[trigger] t[p].holds(y); assert(hst_kf::<T>()(k, x) && hdy_kf::<T>()(p, y)); }
    }
    assert forall|x: RouteRef<T>, y: RouteRef<T>| rid(*x) == rid(*y) && #[trigger] s.any_host.holds(x) implies !#[trigger] map_holds(m, y) && !map_holds(t, y) by {
        assert(hst_any_ok(x));
        if map_holds(m, y) { assert(s.sholds(x) && s.sholds(y)); let k = choose|k: String| m.contains_key(k) && #[trigger] m[k].holds(y); assert(hst_kf::<T>()(k, y)); assert(k@.len() > 0); }
        if map_holds(t, y) { assert(s.sholds(x) && s.sholds(y)); let p = choose|p: Seq<char>| t.contains_key(p) && #[trigger] t[p].holds(y); assert(hdy_kf::<T>()(p, y)); }
    }
}
pub proof fn lemma_host_inserted_any<T>(o: HostMatcher<T>, n: HostMatcher<T>, rt: RouteRef<T>)
    requires o.wf(), forall|x: RouteRef<T>| o.holds(x) ==> rid(*x) != rid(*rt), n.static_hosts@ == o.static_hosts@, n.regex_tree_rule.tmap() == o.regex_tree_rule.tmap(),
        inserted_rel(o.any_host, n.any_host, rt), n.count == o.count + 1, hst_any_ok(rt),
    ensures inserted_rel(o, n, rt),
{
    assert forall|x: RouteRef<T>| #![trigger n.holds(x)] #![trigger o.holds(x)] n.holds(x) <==> o.holds(x) || x == rt by {}
    lemma_uniq_inserted(o, n, rt); lemma_host_uniq_bridge(n);
    assert forall|x: RouteRef<T>| #[trigger] n.any_host.holds(x) implies hst_any_ok(x) by { if x != rt { assert(o.any_host.holds(x)); } }
}
pub proof fn lemma_host_inserted_static<T>(o: HostMatcher<T>, n: HostMatcher<T>, rt: RouteRef<T>, key: String)
    requires o.wf(), forall|x: RouteRef<T>| o.holds(x) ==> rid(*x) != rid(*rt), n.any_host == o.any_host, n.regex_tree_rule.tmap() == o.regex_tree_rule.tmap(), n.count == o.count + 1,
        key@.len() > 0, rhost(*rt) == HostKey::Static(key@),
        n.static_hosts@.contains_key(key), n.static_hosts@ == o.static_hosts@.insert(key, n.static_hosts@[key]), n.static_hosts@[key].wf(),
        forall|x: RouteRef<T>| #![trigger n.static_hosts@[key].holds(x)] n.static_hosts@[key].holds(x) <==> (o.static_hosts@.contains_key(key) && o.static_hosts@[key].holds(x)) || x == rt,
        n.static_hosts@[key].cnt() == (if o.static_hosts@.contains_key(key) { o.static_hosts@[key].cnt() } else { 0 }) + 1,
    ensures inserted_rel(o, n, rt),
{
    assert(hst_kf::<T>()(key, rt));
    lemma_map_inserted(o.static_hosts@, n.static_hosts@, key, rt, hst_kf::<T>());
    assert forall|x: RouteRef<T>| #![trigger n.holds(x)] #![trigger o.holds(x)] n.holds(x) <==> o.holds(x) || x == rt by {}
    lemma_uniq_inserted(o, n, rt); lemma_host_uniq_bridge(n);
    assert forall|k: String| #[trigger] n.static_hosts@.contains_key(k) implies k@.len() > 0 by { if k != key { assert(o.static_hosts@.contains_key(k)); } }
}
pub proof fn lemma_host_inserted_dyn<T>(o: HostMatcher<T>, n: HostMatcher<T>, rt: RouteRef<T>, p: Seq<char>)
    requires o.wf(), forall|x: RouteRef<T>| o.holds(x) ==> rid(*x) != rid(*rt), n.any_host == o.any_host, n.static_hosts@ == o.static_hosts@, n.count == o.count + 1,
        rhost(*rt) == HostKey::Dynamic(p),
        n.regex_tree_rule.tmap().contains_key(p), n.regex_tree_rule.tmap() == o.regex_tree_rule.tmap().insert(p, n.regex_tree_rule.tmap()[p]), n.regex_tree_rule.tmap()[p].wf(),
        forall|x: RouteRef<T>| #![trigger n.regex_tree_rule.tmap()[p].holds(x)] n.regex_tree_rule.tmap()[p].holds(x) <==> (o.regex_tree_rule.tmap().contains_key(p) && o.regex_tree_rule.tmap()[p].holds(x)) || x == rt,
        n.regex_tree_rule.tmap()[p].cnt() == (if o.regex_tree_rule.tmap().contains_key(p) { o.regex_tree_rule.tmap()[p].cnt() } else { 0 }) + 1,
    ensures inserted_rel(o, n, rt),
{
    assert(hdy_kf::<T>()(p, rt));
    lemma_map_inserted(o.regex_tree_rule.tmap(), n.regex_tree_rule.tmap(), p, rt, hdy_kf::<T>());
    assert forall|x: RouteRef<T>| #![trigger n.holds(x)] #![trigger o.holds(x)] n.holds(x) <==> o.holds(x) || x == rt by {}
    lemma_uniq_inserted(o, n, rt); lemma_host_uniq_bridge(n);
}
pub proof fn lemma_host_removed_any<T>(o: HostMatcher<T>, n: HostMatcher<T>, id: Seq<char>, x0: RouteRef<T>)
    requires o.wf(), n.static_hosts@ == o.static_hosts@, n.regex_tree_rule.tmap() == o.regex_tree_rule.tmap(), removed_rel(o.any_host, n.any_host, id, Some(x0)), n.count == o.count - 1, o.count >= 1,
    ensures removed_rel(o, n, id, Some(x0)),
{
    assert(o.holds(x0));
    assert forall|y: RouteRef<T>| #![trigger n.holds(y)] #![trigger o.holds(y)] n.holds(y) <==> o.holds(y) && rid(*y) != id by { if o.holds(y) && rid(*y) == id { assert(y == x0); } }
    lemma_uniq_subset(o, n); lemma_host_uniq_bridge(n);
    assert forall|x: RouteRef<T>| #[trigger] n.any_host.holds(x) implies hst_any_ok(x) by { assert(o.any_host.holds(x)); }
}
// remove(id) went through the static buckets and the regex buckets; r is what the function returns
pub proof fn lemma_host_removed<T>(o: HostMatcher<T>, n: HostMatcher<T>, id: Seq<char>, r: Option<RouteRef<T>>)
    requires o.wf(), removed_rel(o.any_host, n.any_host, id, None::<RouteRef<T>>),
        entries_removed(o.static_hosts@, n.static_hosts@, id), entries_removed(o.regex_tree_rule.tmap(), n.regex_tree_rule.tmap(), id),
        r matches Some(x) ==> rid(*x) == id && (map_holds(o.static_hosts@, x) || map_holds(o.regex_tree_rule.tmap(), x)),
        r is None ==> !map_holds_id(o.static_hosts@, id) && !map_holds_id(o.regex_tree_rule.tmap(), id),
        n.count + (if r is Some { 1int } else { 0int }) == o.count,
    ensures removed_rel(o, n, id, r),
{
    let m0 = o.static_hosts@; let t0 = o.regex_tree_rule.tmap();
    lemma_host_map_uniq(o); lemma_sub_empty::<T>();
    lemma_map_removed(m0, n.static_hosts@, id, hst_kf::<T>());
    lemma_map_removed(t0, n.regex_tree_rule.tmap(), id, hdy_kf::<T>());
    // at most one of the two maps holds the id
    if map_holds_id(m0, id) && map_holds_id(t0, id) {
        let (k, x) = choose|k: String, y: RouteRef<T>| m0.contains_key(k) && #[trigger] m0[k].holds(y) && rid(*y) == id;
        let (p, y) = choose|p: Seq<char>, y: RouteRef<T>| t0.contains_key(p) && #[trigger] t0[p].holds(y) && rid(*y) == id;
        assert(map_holds(m0, x) && map_holds(t0, y));
    }
    if r is Some {
        let x = r.unwrap(); assert(o.holds(x));
        if map_holds(m0, x) { let k = choose|k: String| m0.contains_key(k) && #[trigger] m0[k].holds(x); assert(map_holds_id(m0, id)); }
        else { let p = choose|p: Seq<char>| t0.contains_key(p) && #[trigger] t0[p].holds(x); assert(map_holds_id(t0, id)); }
    }
    assert forall|y: RouteRef<T>| #![trigger n.holds(y)] #![trigger o.holds(y)] n.holds(y) <==> o.holds(y) && rid(*y) != id by {
        if o.any_host.holds(y) { assert(holds_id(o.any_host, id) || rid(*y) != id); }
    }
    if r is None {
        assert forall|y: RouteRef<T>| #[trigger] o.holds(y) implies rid(*y) != id by {
            if o.any_host.holds(y) { assert(holds_id(o.any_host, id) || rid(*y) != id); }
            if map_holds(m0, y) { let k = choose|k: String| m0.contains_key(k) && #[trigger] m0[k].holds(y); assert(map_holds_id(m0, id) || rid(*y) != id); }
            if map_holds(t0, y) { let p = choose|p: Seq<char>| t0.contains_key(p) && #[trigger] t0[p].holds(y); assert(map_holds_id(t0, id) || rid(*y) != id); }
        }
    }
    lemma_uniq_subset(o, n); lemma_host_uniq_bridge(n);
    assert forall|k: String| #[trigger] n.static_hosts@.contains_key(k) implies k@.len() > 0 by { assert(o.static_hosts@.contains_key(k)); }
    assert forall|x: RouteRef<T>| #[trigger] n.any_host.holds(x) implies hst_any_ok(x) by { assert(o.any_host.holds(x)); }
}
pub proof fn lemma_host_cached<T>(o: HostMatcher<T>, n: HostMatcher<T>)
    requires o.wf(), same_store(o.any_host, n.any_host), entries_same(o.static_hosts@, n.static_hosts@), entries_same(o.regex_tree_rule.tmap(), n.regex_tree_rule.tmap()), n.count == o.count,
    ensures same_store(o, n),
{
    lemma_map_same(o.static_hosts@, n.static_hosts@, hst_kf::<T>());
    lemma_map_same(o.regex_tree_rule.tmap(), n.regex_tree_rule.tmap(), hdy_kf::<T>());
    assert forall|x: RouteRef<T>| #![trigger n.holds(x)] #![trigger o.holds(x)] n.holds(x) <==> o.holds(x) by {}
    lemma_uniq_subset(o, n); lemma_host_uniq_bridge(n);
    assert forall|k: String| #[trigger] n.static_hosts@.contains_key(k) implies k@.len() > 0 by { assert(o.static_hosts@.contains_key(k)); }
    assert forall|x: RouteRef<T>| #[trigger] n.any_host.holds(x) implies hst_any_ok(x) by { assert(o.any_host.holds(x)); }
}
pub proof fn lemma_host_batched<T>(o: HostMatcher<T>, n: HostMatcher<T>, ids: Set<String>)
    requires o.wf(), batched_rel(o.any_host, n.any_host, ids), entries_batched(o.static_hosts@, n.static_hosts@, ids), entries_batched(o.regex_tree_rule.tmap(), n.regex_tree_rule.tmap(), ids), n.count == o.count,
    ensures batched_rel(o, n, ids),
{
    lemma_sub_empty::<T>();
    lemma_map_batched(o.static_hosts@, n.static_hosts@, ids, hst_kf::<T>());
    lemma_map_batched(o.regex_tree_rule.tmap(), n.regex_tree_rule.tmap(), ids, hdy_kf::<T>());
    assert forall|y: RouteRef<T>| #![trigger n.holds(y)] #![trigger o.holds(y)] n.holds(y) <==> o.holds(y) && !ids_has(ids, rid(*y)) by {}
    lemma_uniq_subset(o, n); lemma_host_uniq_bridge(n);
    assert forall|k: String| #[trigger] n.static_hosts@.contains_key(k) implies k@.len() > 0 by { assert(o.static_hosts@.contains_key(k)); }
    assert forall|x: RouteRef<T>| #[trigger] n.any_host.holds(x) implies hst_any_ok(x) by { assert(o.any_host.holds(x)); }
}

// C01 exactness of the host layer, including the any-host policy. The answer is the contract verified for HostMatcher::match_request in
// unit rtr (same formula, membership level): host-specific candidates = regex-host buckets whose pattern matches the request host plus
// the static bucket of exactly that host; rules bound to no host are candidates always (policy on) or only when no host-specific rule
// of this scope was reported.
pub uninterp spec fn req_host(q: Request) -> Option<Seq<char>>;
pub open spec fn host_specific<T>(m: HostMatcher<T>, q: Request, x: RouteRef<T>) -> bool {
    req_host(q) matches Some(h) && (
        (exists|p: Seq<char>| m.regex_tree_rule.tmap().contains_key(p) && re_match(p, h) && #[trigger] sub_answers(m.regex_tree_rule.tmap()[p], q, x))
        || (exists|k: String| k@ == h && m.static_hosts@.contains_key(k) && #[trigger] sub_answers(m.static_hosts@[k], q, x)))
}
pub open spec fn host_answers<T>(m: HostMatcher<T>, q: Request, x: RouteRef<T>) -> bool {
    host_specific(m, q, x) || (sub_answers(m.any_host, q, x) && (m.always_match_any_host || !exists|y: RouteRef<T>| host_specific(m, q, y)))
}
// the host trigger of a rule bound to a host: its literal equals the request host, or its pattern matches it
pub open spec fn host_sat_specific<T>(x: RouteRef<T>, q: Request) -> bool {
    match rhost(*x) { HostKey::Static(s) => s.len() > 0 && req_host(q) == Some(s), HostKey::Dynamic(p) => req_host(q) matches Some(h) && re_match(p, h), HostKey::NoHost => false }
}
// statement: "Rules bound to no host obey the configured any-host policy: always candidates, or candidates only when no host-specific
// rule with the same scheme scope matched"
pub open spec fn host_exact<T>(m: HostMatcher<T>, q: Request, x: RouteRef<T>) -> bool {
    m.holds(x) && sat_below(x, q) && (host_sat_specific(x, q)
        || (hst_any_ok(x) && (m.always_match_any_host || !exists|y: RouteRef<T>| m.holds(y) && host_sat_specific(y, q) && #[trigger] sat_below(y, q))))
}
pub proof fn lemma_host_specific_exact<T>(m: HostMatcher<T>, q: Request, x: RouteRef<T>)
    requires m.wf(),
    ensures host_specific(m, q, x) <==> m.holds(x) && host_sat_specific(x, q) && sat_below(x, q),
{
    axiom_string_ext();
    let t = m.regex_tree_rule.tmap(); let st = m.static_hosts@;
    if host_specific(m, q, x) {
        let h = req_host(q).unwrap();
        if exists|p: Seq<char>| t.contains_key(p) && re_match(p, h) && #[trigger] sub_answers(t[p], q, x) { let p = choose|p: Seq<char>| t.contains_key(p) && re_match(p, h) && #[trigger] sub_answers(t[p], q, x); lemma_sub_exact(t[p], q); assert(t[p].holds(x)); assert(map_holds(t, x)); assert(hdy_kf::<T>()(p, x)); }
        else { let k = choose|k: String| k@ == h && st.contains_key(k) && #[trigger] sub_answers(st[k], q, x); lemma_sub_exact(st[k], q); assert(st[k].holds(x)); assert(map_holds(st, x)); assert(hst_kf::<T>()(k, x)); assert(k@.len() > 0); }
    }
    if m.holds(x) && host_sat_specific(x, q) && sat_below(x, q) {
        if m.any_host.holds(x) { assert(hst_any_ok(x)); }
        else if map_holds(st, x) { let k = choose|k: String| st.contains_key(k) && #[trigger] st[k].holds(x); assert(hst_kf::<T>()(k, x)); lemma_sub_exact(st[k], q); assert(sub_answers(st[k], q, x)); }
        else { let p = choose|p: Seq<char>| t.contains_key(p) && #[trigger] t[p].holds(x); assert(hdy_kf::<T>()(p, x)); lemma_sub_exact(t[p], q); assert(sub_answers(t[p], q, x)); }
    }
}
pub proof fn lemma_host_exact<T>(m: HostMatcher<T>, q: Request)
    requires m.wf(),
    ensures forall|x: RouteRef<T>| #[trigger] host_answers(m, q, x) <==> host_exact(m, q, x),
{
    lemma_sub_exact(m.any_host, q);
    assert forall|y: RouteRef<T>| host_specific(m, q, y) <==> m.holds(y) && host_sat_specific(y, q) && #[trigger] sat_below(y, q) by { lemma_host_specific_exact(m, q, y); }
    assert forall|x: RouteRef<T>| #[trigger] host_answers(m, q, x) <==> host_exact(m, q, x) by {
        lemma_host_specific_exact(m, q, x);
        if sub_answers(m.any_host, q, x) { assert(m.any_host.holds(x)); assert(hst_any_ok(x)); }
        if (exists|y: RouteRef<T>| host_specific(m, q, y)) { let y = choose|y: RouteRef<T>| host_specific(m, q, y); lemma_host_specific_exact(m, q, y); assert(m.holds(y) && host_sat_specific(y, q) && sat_below(y, q)); }
        if (exists|y: RouteRef<T>| m.holds(y) && host_sat_specific(y, q) && #[trigger] sat_below(y, q)) { let y = choose|y: RouteRef<T>| m.holds(y) && host_sat_specific(y, q) && #[trigger] sat_below(y, q); lemma_host_specific_exact(m, q, y); assert(host_specific(m, q, y)); }
        if host_exact(m, q, x) && !host_sat_specific(x, q) {
            // a rule bound to no host is stored in the any-host bucket (bucket-key consistency)
            if !m.any_host.holds(x) {
                if map_holds(m.static_hosts@, x) { let k = choose|k: String| m.static_hosts@.contains_key(k) && #[trigger] m.static_hosts@[k].holds(x); assert(hst_kf::<T>()(k, x)); assert(k@.len() > 0); }
                else { let p = choose|p: Seq<char>| m.regex_tree_rule.tmap().contains_key(p) && #[trigger] m.regex_tree_rule.tmap()[p].holds(x); assert(hdy_kf::<T>()(p, x)); }
            }
            assert(sub_answers(m.any_host, q, x));
        }
    }
}
impl<T> HostMatcher<T> {
    //@@ fn src/router/request_matcher/host.rs :: impl <T>HostMatcher<T> / fn new -> r
    //@| ensures r.wf(), r.cnt() == 0, forall|x: RouteRef<T>| !r.holds(x),
    //@| entry broadcast use group_hash_axioms; broadcast use axiom_string_key_model;

    //@@ fn src/router/request_matcher/host.rs :: impl <T>HostMatcher<T> / fn insert
    //@| requires old(self).wf(), old(self).cnt() < usize::MAX, forall|x: RouteRef<T>| old(self).holds(x) ==> rid(*x) != rid(*route),
    //@| ensures inserted_rel(*old(self), *final(self), route),
    //@| entry broadcast use group_hash_axioms; broadcast use axiom_string_key_model; broadcast use axiom_borrow_str_contains; broadcast use axiom_borrow_str_maps; broadcast use axiom_borrow_str_upd; broadcast use axiom_borrow_string_upd; broadcast use axiom_arc_cloned;
    //@|     let ghost m0 = self.static_hosts@; let ghost t0 = self.regex_tree_rule.tmap(); let ghost f = cnt_of::<T, Sub<T>>(); let ghost rt = route; let ghost hk = rhost_of(rt);
    //@|     proof { axiom_string_ext(); lemma_sub_wf(self.any_host); lit_empty();
    //@|         match hk { HostKey::Dynamic(p) => { if t0.contains_key(p) { lemma_msum_remove(t0, f, p); lemma_sub_wf(t0[p]); assert forall|x: RouteRef<T>| t0[p].holds(x) implies rid(*x) != rid(*route) by { assert(map_holds(t0, x)); assert(old(self).holds(x)); } } }, _ => {} } }
    //@| exit proof {
    //@|     if hk is NoHost { lemma_host_inserted_any(*old(self), *self, rt); }
    //@|     match hk { HostKey::Dynamic(p) => { lemma_host_inserted_dyn(*old(self), *self, rt, p); }, _ => {} }
    //@| }
    //@| before `return;`: proof { assert(static_host@ =~= Seq::<char>::empty()); lemma_host_inserted_any(*old(self), *self, rt); }
    //@| before `self.static_hosts.get_mut(static_host).unwrap().insert(route.clone());`: let ghost m1 = self.static_hosts@;
    //@|     proof {
    //@|         let key = *static_host;
    //@|         assert(m1.contains_key(key) && m1[key].wf()); lemma_sub_wf(m1[key]);
    //@|         if m0.contains_key(key) { assert(m1 == m0); lemma_msum_remove(m0, f, key); assert forall|x: RouteRef<T>| m1[key].holds(x) implies rid(*x) != rid(*route) by { assert(map_holds(m0, x)); assert(old(self).holds(x)); } }
    //@|         else { assert(m1 == m0.insert(key, m1[key])); }
    //@|     }
    //@| after `self.static_hosts.get_mut(static_host).unwrap().insert(route.clone());`: proof {
    //@|     let key = *static_host;
    //@|     assert(self.static_hosts@ == m1.insert(key, self.static_hosts@[key]));
    //@|     assert(self.static_hosts@ =~= m0.insert(key, self.static_hosts@[key]));
    //@|     lemma_host_inserted_static(*old(self), *self, rt, key);
    //@| }

    //@@ fn src/router/request_matcher/host.rs :: impl <T>HostMatcher<T> / fn remove -> r
    //@| requires old(self).wf(),
    //@| ensures removed_rel(*old(self), *final(self), id@, r),
    //@| statelift `self.static_hosts.retain(|_, matcher|` var `removed` helper `vf_retain_st` header `|_k: &String, matcher: &mut Sub<T>, vf_st: &mut Option<RouteRef<T>>| -> (b: bool) requires old(matcher).wf() ensures ((*old(vf_st)) is Some && *final(matcher) == *old(matcher) && *final(vf_st) == *old(vf_st) && b) || (exists|r: Option<RouteRef<T>>| #[trigger] removed_rel(*old(matcher), *final(matcher), id@, r) && *final(vf_st) == (if r is Some { r } else { *old(vf_st) }) && (!b ==> final(matcher).cnt() == 0))` ghost `Ghost(post_rm_t::<String, T, Sub<T>>(id@))`
    //@| before `self.static_hosts.retain(`: let ghost vf_m0 = self.static_hosts@; let ghost vf_r0 = removed;
    //@| after `!matcher.is_empty() });`#0: proof { lemma_host_map_uniq(*old(self)); lemma_chain_removed_t(vf_m0, self.static_hosts@, vf_r0, removed, id@); }
    //@| outline `let removed_in_regex = Cell::new(None); self.regex_tree_rule.retain(&|_, matcher| { if let Some(value) = matcher.remove(id) { removed_in_regex.set(Some(value)); } !matcher.is_empty() }); if removed.is_none() { removed = removed_in_regex.into_inner(); }` => `outl_tree_retain_remove(&mut self.regex_tree_rule, id, &mut removed);`
    //@| closure `|_, matcher|`#1 => `|_k: &str, matcher: &mut Sub<T>| -> (b: bool) requires old(matcher).wf() ensures removed_rel2(*old(matcher), *final(matcher), id@), !b ==> final(matcher).cnt() == 0`
    //@| entry broadcast use group_hash_axioms; broadcast use axiom_string_key_model;
    //@|     proof { axiom_string_ext(); }
    //@| before `return removed;`: proof { lemma_host_removed_any(*old(self), *self, id@, removed.unwrap()); }
    //@| after `removed = removed_in_regex.into_inner(); }`: proof {
    //@|     let m0 = old(self).static_hosts@; let t0 = old(self).regex_tree_rule.tmap();
    //@|     assert(entries_removed(t0, self.regex_tree_rule.tmap(), id@));
    //@|     lemma_host_map_uniq(*old(self)); lemma_sub_empty::<T>();
    //@|     lemma_map_removed(m0, self.static_hosts@, id@, hst_kf::<T>());
    //@|     lemma_map_removed(t0, self.regex_tree_rule.tmap(), id@, hdy_kf::<T>());
    //@|     if removed is Some { let x = removed.unwrap();
    //@|         if map_holds(m0, x) { let k = choose|k: String| m0.contains_key(k) && #[trigger] m0[k].holds(x); assert(map_holds_id(m0, id@)); }
    //@|         else { let p = choose|p: Seq<char>| t0.contains_key(p) && #[trigger] t0[p].holds(x); assert(map_holds_id(t0, id@)); } }
    //@| }
    //@| exit proof { lemma_host_removed(*old(self), *self, id@, removed); }

    //@@ fn src/router/request_matcher/host.rs :: impl <T>HostMatcher<T> / fn batch_remove -> r
    //@| requires old(self).wf(),
    //@| ensures batched_rel(*old(self), *final(self), ids@),
    //@| closure `|_, matcher|`#0 => `|_k: &String, matcher: &mut Sub<T>| -> (b: bool) requires old(matcher).wf() ensures batched_rel(*old(matcher), *final(matcher), ids@), !b ==> final(matcher).cnt() == 0`
    //@| closure `|_, matcher|`#1 => `|_k: &str, matcher: &mut Sub<T>| -> (b: bool) requires old(matcher).wf() ensures batched_rel(*old(matcher), *final(matcher), ids@), !b ==> final(matcher).cnt() == 0`
    //@| entry broadcast use group_hash_axioms; broadcast use axiom_string_key_model;
    //@|     proof { axiom_string_ext(); }
    //@| exit proof { assert(entries_batched(old(self).regex_tree_rule.tmap(), self.regex_tree_rule.tmap(), ids@)); lemma_host_batched(*old(self), *self, ids@); }

    // C12 / C02 (host layer): warming the cache keeps the invariant, the stored set and the any-host policy flag; budget never grows
    //@@ fn src/router/request_matcher/host.rs :: impl <T>HostMatcher<T> / fn cache -> r
    //@| requires old(self).wf(),
    //@| ensures same_store(*old(self), *final(self)), r <= limit, final(self).always_match_any_host == old(self).always_match_any_host,
    //@| forlift `for matcher in self.static_hosts.values_mut() {` var `new_limit` helper `vf_values_mut_st` header `|matcher: &mut Sub<T>, vf_st: &mut u64| requires old(matcher).wf() ensures same_store(*old(matcher), *final(matcher)), *final(vf_st) <= *old(vf_st)` ghost `Ghost(post_cache::<T, Sub<T>>())`
    //@| forlift `for matcher in self.regex_tree_rule.iter_mut() {` var `new_limit` helper `vf_tree_iter_mut_st` header `|matcher: &mut Sub<T>, vf_st: &mut u64| requires old(matcher).wf() ensures same_store(*old(matcher), *final(matcher)), *final(vf_st) <= *old(vf_st)` ghost `Ghost(post_cache::<T, Sub<T>>())`
    //@| entry broadcast use group_hash_axioms; broadcast use axiom_string_key_model;
    //@| before `for matcher in self.static_hosts.values_mut() {`: let ghost vf_m0 = self.static_hosts@; let ghost vf_l0 = new_limit;
    //@| before `for matcher in self.regex_tree_rule.iter_mut() {`: proof { lemma_vchain_cached::<String, T, Sub<T>>(vf_m0, self.static_hosts@, vf_l0, new_limit); }
    //@|     let ghost vf_t0 = self.regex_tree_rule.tmap(); let ghost vf_l1 = new_limit;
    //@| exit proof { lemma_vchain_cached::<Seq<char>, T, Sub<T>>(vf_t0, self.regex_tree_rule.tmap(), vf_l1, new_limit); lemma_host_cached(*old(self), *self); }

    //@@ fn src/router/request_matcher/host.rs :: impl <T>HostMatcher<T> / fn len -> r
    //@| ensures r == self.cnt(),
    //@@ fn src/router/request_matcher/host.rs :: impl <T>HostMatcher<T> / fn is_empty -> r
    //@| ensures r == (self.cnt() == 0),
}
//@@ unrename IpMatcher

// ================================================================ ip layer (a route with several ip constraints sits in several buckets)
// SHIM: RouteIp is opaque here (unit rtr verifies its predicate); keys of the bucket map
#[verifier::external_body] pub struct RouteIp { x: u8 }
impl Clone for RouteIp { #[verifier::external_body] fn clone(&self) -> (r: Self) ensures r == *self { unimplemented!() } }
impl RouteIp { #[verifier::external_body] pub fn match_ip(&self, ip: &IpAddr) -> (r: bool) ensures r == sat_ip(*self, *ip) { unimplemented!() } }
#[verifier::external_body] pub broadcast proof fn axiom_routeip_key_model() ensures #[trigger] obeys_key_model::<RouteIp>() {}
pub uninterp spec fn rips<T>(r: Route<T>) -> Option<Seq<RouteIp>>;
pub open spec fn opt_ips(o: Option<&Vec<RouteIp>>) -> Option<Seq<RouteIp>> { match o { Some(v) => Some(v@), None => None } }
impl<T> Route<T> {
    #[verifier::external_body] pub fn ips(&self) -> (r: Option<&Vec<RouteIp>>) ensures opt_ips(r) == rips(*self) { unimplemented!() }
}
pub open spec fn ip_kf<T>() -> spec_fn(RouteIp, RouteRef<T>) -> bool { |k: RouteIp, x: RouteRef<T>| rips(*x) matches Some(v) && v.contains(k) }
// removal / batch removal through a map of buckets: the stored-set part only (no bucket-disjointness needed)
pub proof fn lemma_map_removed_holds<K, T, S: Store<T>>(m0: Map<K, S>, m1: Map<K, S>, id: Seq<char>, kf: spec_fn(K, RouteRef<T>) -> bool)
    requires entries_removed(m0, m1, id), map_wf(m0), map_keyed(m0, kf),
        forall|v: S| v.wf() && v.cnt() == 0 ==> forall|x: RouteRef<T>| !#[trigger] v.holds(x),
    ensures map_wf(m1), map_keyed(m1, kf),
        forall|y: RouteRef<T>| #![trigger map_holds(m1, y)] #![trigger map_holds(m0, y)] map_holds(m1, y) <==> map_holds(m0, y) && rid(*y) != id,
{
    assert forall|k: K, y: RouteRef<T>| m0.contains_key(k) && !m1.contains_key(k) && #[trigger] m0[k].holds(y) implies rid(*y) == id by {
        let v1 = choose|v1: S| #[trigger] removed_rel2(m0[k], v1, id) && v1.cnt() == 0;
        if rid(*y) != id { assert(v1.holds(y)); }
    }
    assert forall|y: RouteRef<T>| #![trigger map_holds(m1, y)] #![trigger map_holds(m0, y)] map_holds(m1, y) <==> map_holds(m0, y) && rid(*y) != id by {
        if map_holds(m1, y) { let k = choose|k: K| m1.contains_key(k) && #[trigger] m1[k].holds(y); assert(m0.contains_key(k) && m0[k].holds(y)); }
        if map_holds(m0, y) && rid(*y) != id { let k = choose|k: K| m0.contains_key(k) && #[trigger] m0[k].holds(y); assert(m1.contains_key(k)); assert(m1[k].holds(y)); }
    }
    assert forall|k: K, x: RouteRef<T>| m1.contains_key(k) && #[trigger] m1[k].holds(x) implies kf(k, x) by { assert(m0[k].holds(x)); }
}
// R8 outlines, ASSUMED contracts (trusted, listed):
// (1) `self.matchers.entry(ip.clone()).or_insert_with(|| MethodMatcher::new(config.clone())).insert(route.clone());` — HashMap's Entry API with a
//     closure has no Verus specification. Summary: the bucket of `ip` (created empty if absent) receives the route.
#[verifier::external_body]
pub fn outl_ip_bucket_insert<T>(m: &mut HashMap<RouteIp, Sub<T>>, ip: &RouteIp, config: &Arc<RouterConfig>, route: RouteRef<T>)
    requires map_wf(old(m)@), old(m)@.contains_key(*ip) ==> old(m)@[*ip].cnt() < usize::MAX && forall|x: RouteRef<T>| old(m)@[*ip].holds(x) ==> rid(*x) != rid(*route),
    ensures final(m)@.contains_key(*ip), final(m)@ == old(m)@.insert(*ip, final(m)@[*ip]), final(m)@[*ip].wf(),
        forall|x: RouteRef<T>| #![trigger final(m)@[*ip].holds(x)] final(m)@[*ip].holds(x) <==> (old(m)@.contains_key(*ip) && old(m)@[*ip].holds(x)) || x == route,
        final(m)@[*ip].cnt() == (if old(m)@.contains_key(*ip) { old(m)@[*ip].cnt() } else { 0 }) + 1,
{
    /* verbatim: self.matchers .entry(ip.clone()) .or_insert_with(|| MethodMatcher::new(config.clone())) .insert(route.clone()); */
    unimplemented!()
}
//@@ rename MethodMatcher Sub
//@@ item src/router/request_matcher/ip.rs :: struct IpMatcher
impl<T> IpMatcher<T> {
    pub open spec fn sholds(&self, x: RouteRef<T>) -> bool { self.no_matcher.holds(x) || map_holds(self.matchers@, x) }
    // the counter is an upper bound of the number of stored routes (exact until a batch removal)
    pub open spec fn counted(&self) -> bool { exists|s: Set<RouteRef<T>>| #[trigger] s.len() <= self.count && forall|x: RouteRef<T>| s.contains(x) <==> self.sholds(x) }
    pub open spec fn swf(&self) -> bool {
        &&& self.no_matcher.wf() && map_wf(self.matchers@)
        &&& self.counted()
        &&& forall|x: RouteRef<T>, y: RouteRef<T>| #[trigger] self.sholds(x) && #[trigger] self.sholds(y) && rid(*x) == rid(*y) ==> x == y
        // bucket-key consistency: a route filed under range k lists k among its ip constraints; a route filed under "no ip" has none
        &&& map_keyed(self.matchers@, ip_kf::<T>()) && map_complete(self.matchers@, ip_kf::<T>())
        &&& forall|x: RouteRef<T>| #[trigger] self.no_matcher.holds(x) ==> rips(*x) is None
    }
}
impl<T> Store<T> for IpMatcher<T> {
    open spec fn holds(&self, x: RouteRef<T>) -> bool { self.sholds(x) }
    open spec fn cnt(&self) -> nat { self.count as nat }
    open spec fn wf(&self) -> bool { self.swf() }
}
pub proof fn lemma_ip_uniq_bridge<T>(n: IpMatcher<T>)
    requires uniq(n),
    ensures forall|x: RouteRef<T>, y: RouteRef<T>| #[trigger] n.sholds(x) && #[trigger] n.sholds(y) && rid(*x) == rid(*y) ==> x == y,
{
    assert forall|x: RouteRef<T>, y: RouteRef<T>| #[trigger] n.sholds(x) && #[trigger] n.sholds(y) && rid(*x) == rid(*y) implies x == y by { assert(n.holds(x) && n.holds(y)); }
}
// the properties the layer above relies on (lemma_sub_wf for this layer): they follow from wf()
pub proof fn lemma_ip_wf<T>(s: IpMatcher<T>)
    requires s.wf(),
    ensures uniq(s), s.cnt() == 0 ==> forall|x: RouteRef<T>| !s.holds(x), s.cnt() <= usize::MAX,
{
    let w = choose|w: Set<RouteRef<T>>| #[trigger] w.len() <= s.count && forall|x: RouteRef<T>| w.contains(x) <==> s.sholds(x);
    if s.count == 0 { assert forall|x: RouteRef<T>| !s.holds(x) by { if s.sholds(x) { assert(w.contains(x)); assert(w.len() > 0) by { if w.len() == 0 { assert(w =~= Set::<RouteRef<T>>::empty()); } } } } }
}
pub proof fn lemma_ip_counted_insert<T>(o: IpMatcher<T>, n: IpMatcher<T>, rt: RouteRef<T>)
    requires o.counted(), n.count == o.count + 1, forall|x: RouteRef<T>| #![trigger n.sholds(x)] n.sholds(x) <==> o.sholds(x) || x == rt,
    ensures n.counted(),
{
    let w = choose|w: Set<RouteRef<T>>| #[trigger] w.len() <= o.count && forall|x: RouteRef<T>| w.contains(x) <==> o.sholds(x);
    let w2 = w.insert(rt);
    assert(w2.len() <= n.count && forall|x: RouteRef<T>| w2.contains(x) <==> n.sholds(x));
}
pub proof fn lemma_ip_counted_sub<T>(o: IpMatcher<T>, n: IpMatcher<T>, dec: bool)
    requires o.counted(), forall|x: RouteRef<T>| #[trigger] n.sholds(x) ==> o.sholds(x),
        !dec ==> n.count == o.count,
        dec ==> n.count + 1 == o.count && exists|x0: RouteRef<T>| o.sholds(x0) && !n.sholds(x0),
    ensures n.counted(),
{
    let w = choose|w: Set<RouteRef<T>>| #[trigger] w.len() <= o.count && forall|x: RouteRef<T>| w.contains(x) <==> o.sholds(x);
    let w2 = w.filter(|x: RouteRef<T>| n.sholds(x));
    w.lemma_len_filter(|x: RouteRef<T>| n.sholds(x));
    assert forall|x: RouteRef<T>| w2.contains(x) <==> n.sholds(x) by {}
    if dec {
        let x0 = choose|x0: RouteRef<T>| o.sholds(x0) && !n.sholds(x0);
        assert(w.contains(x0) && !w2.contains(x0));
        assert(w2.subset_of(w.remove(x0)));
        vstd::set_lib::lemma_len_subset(w2, w.remove(x0));
    }
    assert(w2.len() <= n.count);
}

pub proof fn lemma_ip_inserted<T>(o: IpMatcher<T>, n: IpMatcher<T>, rt: RouteRef<T>)
    requires o.wf(), forall|x: RouteRef<T>| o.holds(x) ==> rid(*x) != rid(*rt), n.count == o.count + 1,
        n.no_matcher.wf(), map_wf(n.matchers@), map_keyed(n.matchers@, ip_kf::<T>()), map_complete(n.matchers@, ip_kf::<T>()),
        forall|x: RouteRef<T>| #![trigger n.sholds(x)] n.sholds(x) <==> o.sholds(x) || x == rt,
        forall|x: RouteRef<T>| #[trigger] n.no_matcher.holds(x) ==> rips(*x) is None,
    ensures inserted_rel(o, n, rt),
{
    lemma_ip_counted_insert(o, n, rt);
    assert forall|x: RouteRef<T>| #![trigger n.holds(x)] #![trigger o.holds(x)] n.holds(x) <==> o.holds(x) || x == rt by {}
    lemma_uniq_inserted(o, n, rt); lemma_ip_uniq_bridge(n);
}

pub proof fn lemma_ip_removed_any<T>(o: IpMatcher<T>, n: IpMatcher<T>, id: Seq<char>, x0: RouteRef<T>)
    requires o.wf(), n.matchers@ == o.matchers@, removed_rel(o.no_matcher, n.no_matcher, id, Some(x0)), n.count + 1 == o.count,
    ensures removed_rel(o, n, id, Some(x0)),
{
    assert(o.holds(x0));
    assert forall|y: RouteRef<T>| #![trigger n.holds(y)] #![trigger o.holds(y)] n.holds(y) <==> o.holds(y) && rid(*y) != id by { if o.holds(y) && rid(*y) == id { assert(y == x0); } }
    lemma_uniq_subset(o, n); lemma_ip_uniq_bridge(n);
    assert(o.sholds(x0) && !n.sholds(x0));
    lemma_ip_counted_sub(o, n, true);
    assert forall|x: RouteRef<T>| #[trigger] n.no_matcher.holds(x) implies rips(*x) is None by { assert(o.no_matcher.holds(x)); }
}
pub proof fn lemma_ip_removed<T>(o: IpMatcher<T>, n: IpMatcher<T>, id: Seq<char>, r: Option<RouteRef<T>>)
    requires o.wf(), removed_rel(o.no_matcher, n.no_matcher, id, None::<RouteRef<T>>), entries_removed(o.matchers@, n.matchers@, id),
        r matches Some(x) ==> rid(*x) == id && map_holds(o.matchers@, x), r is None ==> !map_holds_id(o.matchers@, id),
        n.count + (if r is Some { 1int } else { 0int }) == o.count,
    ensures removed_rel(o, n, id, r),
{
    lemma_sub_empty::<T>();
    lemma_map_removed_holds(o.matchers@, n.matchers@, id, ip_kf::<T>());
    assert forall|y: RouteRef<T>| #![trigger n.holds(y)] #![trigger o.holds(y)] n.holds(y) <==> o.holds(y) && rid(*y) != id by {
        if o.no_matcher.holds(y) { assert(holds_id(o.no_matcher, id) || rid(*y) != id); }
    }
    if r is Some { let x = r.unwrap(); assert(o.holds(x)); assert(o.sholds(x) && !n.sholds(x)); }
    else {
        assert forall|y: RouteRef<T>| #[trigger] o.holds(y) implies rid(*y) != id by {
            if o.no_matcher.holds(y) { assert(holds_id(o.no_matcher, id) || rid(*y) != id); }
            if map_holds(o.matchers@, y) { let k = choose|k: RouteIp| o.matchers@.contains_key(k) && #[trigger] o.matchers@[k].holds(y); assert(map_holds_id(o.matchers@, id) || rid(*y) != id); }
        }
    }
    lemma_uniq_subset(o, n); lemma_ip_uniq_bridge(n);
    lemma_ip_counted_sub(o, n, r is Some);
    assert forall|x: RouteRef<T>| #[trigger] n.no_matcher.holds(x) implies rips(*x) is None by { assert(o.no_matcher.holds(x)); }
}
pub proof fn lemma_ip_cached<T>(o: IpMatcher<T>, n: IpMatcher<T>)
    requires o.wf(), same_store(o.no_matcher, n.no_matcher), entries_same(o.matchers@, n.matchers@), n.count == o.count,
    ensures same_store(o, n),
{
    lemma_map_same(o.matchers@, n.matchers@, ip_kf::<T>());
    assert forall|x: RouteRef<T>| #![trigger n.holds(x)] #![trigger o.holds(x)] n.holds(x) <==> o.holds(x) by {}
    lemma_uniq_subset(o, n); lemma_ip_uniq_bridge(n);
    lemma_ip_counted_sub(o, n, false);
    assert forall|x: RouteRef<T>| #[trigger] n.no_matcher.holds(x) implies rips(*x) is None by { assert(o.no_matcher.holds(x)); }
}
pub proof fn lemma_ip_batched<T>(o: IpMatcher<T>, n: IpMatcher<T>, ids: Set<String>)
    requires o.wf(), batched_rel(o.no_matcher, n.no_matcher, ids), entries_batched(o.matchers@, n.matchers@, ids), n.count == o.count,
    ensures batched_rel(o, n, ids),
{
    lemma_sub_empty::<T>();
    lemma_map_batched(o.matchers@, n.matchers@, ids, ip_kf::<T>());
    assert forall|y: RouteRef<T>| #![trigger n.holds(y)] #![trigger o.holds(y)] n.holds(y) <==> o.holds(y) && !ids_has(ids, rid(*y)) by {}
    lemma_uniq_subset(o, n); lemma_ip_uniq_bridge(n);
    lemma_ip_counted_sub(o, n, false);
    assert forall|x: RouteRef<T>| #[trigger] n.no_matcher.holds(x) implies rips(*x) is None by { assert(o.no_matcher.holds(x)); }
}

// C01 exactness of the ip layer. The answer is the membership-exact contract verified for IpMatcher::match_request in unit rtr (same
// formula, restated over this unit's view): the no-ip bucket, plus every range bucket whose range test the client address satisfies.
pub uninterp spec fn sat_ip(k: RouteIp, a: IpAddr) -> bool;
pub open spec fn ip_answers<T>(m: IpMatcher<T>, q: Request, x: RouteRef<T>) -> bool {
    sub_answers(m.no_matcher, q, x) || (q.remote_addr matches Some(a) && exists|k: RouteIp| m.matchers@.contains_key(k) && sat_ip(k, a) && #[trigger] sub_answers(m.matchers@[k], q, x))
}
// the ip trigger of a rule: no ip constraint, or SOME listed range test holds for the client address
pub open spec fn ip_sat<T>(x: RouteRef<T>, q: Request) -> bool {
    match rips(*x) { None => true, Some(v) => q.remote_addr matches Some(a) && exists|i: int| 0 <= i < v.len() && sat_ip(#[trigger] v[i], a) }
}
pub type IpItem<'a, T> = (&'a RouteIp, &'a Sub<T>);
pub open spec fn ipc<T>(rem: Seq<IpItem<T>>, n: int, addr: IpAddr, request: Request, x: RouteRef<T>) -> bool {
    exists|i: int| 0 <= i < n && sat_ip(*#[trigger] rem[i].0, addr) && sub_answers(*rem[i].1, request, x)
}
pub proof fn lemma_ip_exact<T>(m: IpMatcher<T>, q: Request)
    requires m.wf(),
    ensures forall|x: RouteRef<T>| #[trigger] ip_answers(m, q, x) <==> m.holds(x) && ip_sat(x, q) && sat_below(x, q),
{
    lemma_sub_exact(m.no_matcher, q);
    let kf = ip_kf::<T>();
    assert forall|x: RouteRef<T>| #[trigger] ip_answers(m, q, x) <==> m.holds(x) && ip_sat(x, q) && sat_below(x, q) by {
        if ip_answers(m, q, x) && !sub_answers(m.no_matcher, q, x) {
            let a = q.remote_addr.unwrap(); let k = choose|k: RouteIp| m.matchers@.contains_key(k) && sat_ip(k, a) && #[trigger] sub_answers(m.matchers@[k], q, x);
            lemma_sub_exact(m.matchers@[k], q); assert(m.matchers@[k].holds(x)); assert(map_holds(m.matchers@, x)); assert(kf(k, x));
            let v = rips(*x).unwrap(); let i = choose|i: int| 0 <= i < v.len() && v[i] == k; assert(sat_ip(v[i], a));
        }
        if sub_answers(m.no_matcher, q, x) { assert(m.no_matcher.holds(x)); }
        if m.holds(x) && ip_sat(x, q) && sat_below(x, q) {
            if m.no_matcher.holds(x) { assert(sub_answers(m.no_matcher, q, x)); }
            else {
                let k0 = choose|k0: RouteIp| m.matchers@.contains_key(k0) && #[trigger] m.matchers@[k0].holds(x); assert(kf(k0, x));
                let v = rips(*x).unwrap(); let a = q.remote_addr.unwrap(); let i = choose|i: int| 0 <= i < v.len() && sat_ip(#[trigger] v[i], a);
                assert(v.contains(v[i])); assert(kf(v[i], x)); assert(map_holds(m.matchers@, x));
                assert(m.matchers@.contains_key(v[i]) && m.matchers@[v[i]].holds(x));
                lemma_sub_exact(m.matchers@[v[i]], q); assert(sub_answers(m.matchers@[v[i]], q, x));
            }
        }
    }
}
impl<T> IpMatcher<T> {
    //@@ fn src/router/request_matcher/ip.rs :: impl <T>IpMatcher<T> / fn new -> r
    //@| ensures r.wf(), r.cnt() == 0, forall|x: RouteRef<T>| !r.holds(x),
    //@| entry broadcast use group_hash_axioms; broadcast use axiom_routeip_key_model;
    //@| exit proof { let w = Set::<RouteRef<T>>::empty(); assert(w.len() <= vf_ret.count && forall|x: RouteRef<T>| w.contains(x) <==> vf_ret.sholds(x)); }

    // domain restrictions (stated): fewer than 2^64 insertions per bucket; the ip constraints of a route are pairwise distinct and, when
    // present, non-empty (Rule::route_ips never yields Some(empty))
    //@@ fn src/router/request_matcher/ip.rs :: impl <T>IpMatcher<T> / fn insert
    //@| requires old(self).wf(), old(self).cnt() < usize::MAX, forall|x: RouteRef<T>| old(self).holds(x) ==> rid(*x) != rid(*route),
    //@|     old(self).no_matcher.cnt() < usize::MAX, forall|k: RouteIp| old(self).matchers@.contains_key(k) ==> (#[trigger] old(self).matchers@[k]).cnt() < usize::MAX,
    //@|     rips(*route) matches Some(v) ==> v.len() > 0 && v.no_duplicates(),
    //@| ensures inserted_rel(*old(self), *final(self), route),
    //@| outline `self.matchers .entry(ip.clone()) .or_insert_with(|| MethodMatcher::new(config.clone())) .insert(route.clone());` => `outl_ip_bucket_insert(&mut self.matchers, ip, &config, route.clone());`
    //@| opt r6i:0
    //@| entry broadcast use group_hash_axioms; broadcast use axiom_routeip_key_model; broadcast use axiom_arc_cloned;
    //@|     let ghost m0 = self.matchers@; let ghost rt = route; let ghost kf = ip_kf::<T>();
    //@| forlabel 0: it
    //@| loopbefore 0: let ghost iv = ips@;
    //@| loop 0: invariant iter_ref_ok(it.history@, it.index@, it.snapshot@.remaining(), iv), rips(*rt) == Some(iv), iv.no_duplicates(), route == rt,
    //@|     self.no_matcher == old(self).no_matcher, self.count == old(self).count + 1, kf == ip_kf::<T>(), m0 == old(self).matchers@,
    //@|     old(self).wf(), forall|x: RouteRef<T>| old(self).holds(x) ==> rid(*x) != rid(*rt), forall|k: RouteIp| m0.contains_key(k) ==> (#[trigger] m0[k]).cnt() < usize::MAX,
    //@|     map_wf(self.matchers@), map_keyed(self.matchers@, kf),
    //@|     forall|x: RouteRef<T>| #![trigger map_holds(self.matchers@, x)] map_holds(self.matchers@, x) <==> map_holds(m0, x) || (it.index@ > 0 && x == rt),
    //@|     forall|j: int| it.index@ <= j < iv.len() && self.matchers@.contains_key(#[trigger] iv[j]) ==> m0.contains_key(iv[j]) && self.matchers@[iv[j]] == m0[iv[j]],
    //@|     forall|j: int| 0 <= j < it.index@ ==> self.matchers@.contains_key(#[trigger] iv[j]) && self.matchers@[iv[j]].holds(rt),
    //@|     forall|kk: RouteIp, x: RouteRef<T>| m0.contains_key(kk) && #[trigger] m0[kk].holds(x) ==> self.matchers@.contains_key(kk) && self.matchers@[kk].holds(x),
    //@| loophead 0: let ghost m1 = self.matchers@; let ghost k = it.index@ as int;
    //@|     proof { assert(*ip == iv[k]);
    //@|         if m1.contains_key(*ip) { assert(m1[*ip] == m0[*ip]); assert forall|x: RouteRef<T>| m1[*ip].holds(x) implies rid(*x) != rid(*route) by { assert(m0[*ip].holds(x)); assert(map_holds(m0, x)); assert(old(self).sholds(x)); assert(old(self).holds(x)); } } }
    //@| looptail 0: proof {
    //@|     let key = iv[k];
    //@|     assert(kf(key, rt)) by { assert(iv.contains(key)); }
    //@|     lemma_map_inserted(m1, self.matchers@, key, rt, kf);
    //@|     assert forall|x: RouteRef<T>| #![trigger map_holds(self.matchers@, x)] map_holds(self.matchers@, x) <==> map_holds(m0, x) || x == rt by { assert(map_holds(self.matchers@, x) <==> map_holds(m1, x) || x == rt); }
    //@|     assert forall|j: int| k + 1 <= j < iv.len() && self.matchers@.contains_key(#[trigger] iv[j]) implies m0.contains_key(iv[j]) && self.matchers@[iv[j]] == m0[iv[j]] by { assert(iv[j] != key); assert(m1.contains_key(iv[j])); }
    //@|     assert forall|j: int| 0 <= j < k + 1 implies self.matchers@.contains_key(#[trigger] iv[j]) && self.matchers@[iv[j]].holds(rt) by { if j < k { assert(iv[j] != key); assert(m1.contains_key(iv[j]) && m1[iv[j]].holds(rt)); assert(self.matchers@[iv[j]] == m1[iv[j]]); } }
    //@|     assert forall|kk: RouteIp, x: RouteRef<T>| m0.contains_key(kk) && #[trigger] m0[kk].holds(x) implies self.matchers@.contains_key(kk) && self.matchers@[kk].holds(x) by { assert(m1.contains_key(kk) && m1[kk].holds(x)); if kk != key { assert(self.matchers@[kk] == m1[kk]); } }
    //@| }
    //@| exit proof {
    //@|     assert forall|x: RouteRef<T>| #![trigger self.sholds(x)] self.sholds(x) <==> old(self).sholds(x) || x == rt by {}
    //@|     assert forall|x: RouteRef<T>| #[trigger] self.no_matcher.holds(x) implies rips(*x) is None by { if x != rt { assert(old(self).no_matcher.holds(x)); } }
    //@|     assert forall|kk: RouteIp, x: RouteRef<T>| #![trigger kf(kk, x), map_holds(self.matchers@, x)] kf(kk, x) && map_holds(self.matchers@, x) implies self.matchers@.contains_key(kk) && self.matchers@[kk].holds(x) by {
    //@|         if x == rt { if rips(*rt) is Some { let v = rips(*rt).unwrap(); let j = choose|j: int| 0 <= j < v.len() && v[j] == kk; assert(self.matchers@.contains_key(v[j])); } else { } }
    //@|         else { assert(map_holds(m0, x)); assert(m0.contains_key(kk) && m0[kk].holds(x)); }
    //@|     }
    //@|     lemma_ip_inserted(*old(self), *self, rt);
    //@| }

    //@@ fn src/router/request_matcher/ip.rs :: impl <T>IpMatcher<T> / fn remove -> r
    //@| requires old(self).wf(),
    //@| ensures removed_rel(*old(self), *final(self), id@, r),
    //@| statelift `self.matchers.retain(|_, matcher|` var `removed` helper `vf_retain_st` header `|_k: &RouteIp, matcher: &mut Sub<T>, vf_st: &mut Option<RouteRef<T>>| -> (b: bool) requires old(matcher).wf() ensures exists|r: Option<RouteRef<T>>| #[trigger] removed_rel(*old(matcher), *final(matcher), id@, r) && *final(vf_st) == (if r is Some { r } else { *old(vf_st) }) && (!b ==> final(matcher).cnt() == 0)` ghost `Ghost(post_rm::<RouteIp, T, Sub<T>>(id@))`
    //@| before `self.matchers.retain(`: let ghost vf_m0 = self.matchers@; let ghost vf_r0 = removed;
    //@| after `!matcher.is_empty() });`#0: proof { lemma_chain_removed(vf_m0, self.matchers@, vf_r0, removed, id@); }
    //@| entry broadcast use group_hash_axioms; broadcast use axiom_routeip_key_model;
    //@|     proof { lemma_ip_wf(*self); }
    //@| before `self.count -= 1;`#0: proof { assert(old(self).no_matcher.holds(removed.unwrap())); assert(old(self).sholds(removed.unwrap())); assert(old(self).holds(removed.unwrap())); }
    //@| before `return removed;`: proof { lemma_ip_removed_any(*old(self), *self, id@, removed.unwrap()); }
    //@| after `!matcher.is_empty() });`#0: proof { if removed is Some { assert(old(self).sholds(removed.unwrap())); assert(old(self).holds(removed.unwrap())); } }
    //@| exit proof { lemma_ip_removed(*old(self), *self, id@, removed); }

    //@@ fn src/router/request_matcher/ip.rs :: impl <T>IpMatcher<T> / fn batch_remove -> r
    //@| requires old(self).wf(),
    //@| ensures batched_rel(*old(self), *final(self), ids@),
    //@| closure `|_, matcher|` => `|_k: &RouteIp, matcher: &mut Sub<T>| -> (b: bool) requires old(matcher).wf() ensures batched_rel(*old(matcher), *final(matcher), ids@), !b ==> final(matcher).cnt() == 0`
    //@| entry broadcast use group_hash_axioms; broadcast use axiom_routeip_key_model;
    //@| exit proof { lemma_ip_batched(*old(self), *self, ids@); }

    // C01 (ip layer): membership as in unit rtr, plus "each such rule is reported exactly once" (F7: before the repair a rule with two
    // satisfied ranges was appended once per range bucket; the repaired code skips a handle that is already in the answer)
    //@@ fn src/router/request_matcher/ip.rs :: impl <T>IpMatcher<T> / fn match_request -> r
    //@| opt r5:0
    //@| opt r6:0
    //@| opt r5:1
    //@| opt optloop:1
    //@| requires self.wf(),
    //@| ensures forall|x: RouteRef<T>| #[trigger] r@.contains(x) <==> ip_answers(*self, *request, x),
    //@|     // each reported rule is reported exactly once
    //@|     r@.no_duplicates(),
    //@| attr #[verifier::loop_isolation(false)]
    //@| entry broadcast use group_hash_axioms; broadcast use axiom_routeip_key_model; broadcast use axiom_iter_seq_vec;
    //@|     proof { lemma_sub_exact(self.no_matcher, *request); }
    //@| loopbefore 0: let ghost any0 = routes@; let ghost gm = self.matchers@; let ghost addr = *remote_addr;
    //@| loop 0: invariant 0 <= vf_it0_idx <= vf_it0_rem0.len(), vf_it0.remaining() == vf_it0_rem0.skip(vf_it0_idx), vf_it0_rem0.len() == gm.len(),
    //@|         forall|x: RouteRef<T>| #[trigger] routes@.contains(x) <==> (any0.contains(x) || ipc(vf_it0_rem0, vf_it0_idx, addr, *request, x)),
    //@|         routes@.no_duplicates(),
    //@|     decreases gm.len() - vf_it0_idx,
    //@| loophead 0: let ghost r0 = routes@; let ghost k = vf_it0_idx - 1; let ghost rem = vf_it0_rem0;
    //@|     proof { assert(ip_cidr == rem[k].0 && matcher == rem[k].1); }
    //@| loop 1: invariant 0 <= vf_it1_idx <= vf_it1_rem0.len(), vf_it1.remaining() == vf_it1_rem0.skip(vf_it1_idx), vf_it1_rem0.len() == matcher.answer_len(*request),
    //@|         forall|x: RouteRef<T>| #[trigger] vf_it1_rem0.contains(x) <==> sub_answers(*matcher, *request, x),
    //@|         forall|x: RouteRef<T>| #[trigger] routes@.contains(x) <==> (r0.contains(x) || seen_upto(vf_it1_rem0, vf_it1_idx, x)),
    //@|         routes@.no_duplicates(),
    //@|     decreases matcher.answer_len(*request) - vf_it1_idx,
    //@| loophead 1: let ghost r1 = routes@; let ghost j = vf_it1_idx - 1; let ghost ans = vf_it1_rem0;
    //@|     proof { assert(route == ans[j]); }
    //@| looptail 1: proof {
    //@|     if routes@ != r1 {
    //@|         assert(routes@ =~= r1.push(route)); assert(!r1.contains(route));
    //@|         assert forall|a: int, b: int| 0 <= a < routes@.len() && 0 <= b < routes@.len() && a != b implies routes@[a] != routes@[b] by {
    //@|             if a < r1.len() && b < r1.len() { assert(r1[a] != r1[b]); }
    //@|             else if a < r1.len() { assert(r1.contains(r1[a])); }
    //@|             else if b < r1.len() { assert(r1.contains(r1[b])); }
    //@|         }
    //@|     }
    //@|     assert forall|x: RouteRef<T>| #[trigger] routes@.contains(x) <==> (r0.contains(x) || seen_upto(ans, j + 1, x)) by {
    //@|         if routes@ != r1 { assert(routes@[r1.len() as int] == route); if r1.contains(x) { let i = choose|i: int| 0 <= i < r1.len() && r1[i] == x; assert(routes@[i] == x); } }
    //@|         if seen_upto(ans, j + 1, x) { let i = choose|i: int| 0 <= i < j + 1 && ans[i] == x; if i < j { assert(seen_upto(ans, j, x)); } }
    //@|         if seen_upto(ans, j, x) { let i = choose|i: int| 0 <= i < j && ans[i] == x; assert(0 <= i < j + 1 && ans[i] == x); }
    //@|         if x == route { assert(0 <= j < j + 1 && ans[j] == x); }
    //@|     }
    //@| }
    //@| loopend 1: proof {
    //@|     let ans = vf_it1_rem0;
    //@|     assert forall|x: RouteRef<T>| seen_upto(ans, ans.len() as int, x) <==> sub_answers(*matcher, *request, x) by {
    //@|         if seen_upto(ans, ans.len() as int, x) { let i = choose|i: int| 0 <= i < ans.len() && ans[i] == x; assert(ans.contains(x)); }
    //@|         if ans.contains(x) { let i = choose|i: int| 0 <= i < ans.len() && ans[i] == x; assert(seen_upto(ans, ans.len() as int, x)); }
    //@|     }
    //@|     assert(forall|x: RouteRef<T>| #[trigger] routes@.contains(x) <==> (r0.contains(x) || sub_answers(*matcher, *request, x)));
    //@| }
    //@| looptail 0: proof {
    //@|     assert forall|x: RouteRef<T>| #[trigger] routes@.contains(x) <==> (any0.contains(x) || ipc(rem, k + 1, addr, *request, x)) by {
    //@|         assert(routes@.contains(x) <==> (r0.contains(x) || (sat_ip(*ip_cidr, addr) && sub_answers(*matcher, *request, x))));
    //@|         if ipc(rem, k + 1, addr, *request, x) { let i = choose|i: int| 0 <= i < k + 1 && sat_ip(*#[trigger] rem[i].0, addr) && sub_answers(*rem[i].1, *request, x); if i < k { assert(ipc(rem, k, addr, *request, x)); } }
    //@|         if ipc(rem, k, addr, *request, x) { let i = choose|i: int| 0 <= i < k && sat_ip(*#[trigger] rem[i].0, addr) && sub_answers(*rem[i].1, *request, x); assert(sat_ip(*rem[i].0, addr)); }
    //@|         if sat_ip(*ip_cidr, addr) && sub_answers(*matcher, *request, x) { assert(sat_ip(*rem[k].0, addr)); }
    //@|     }
    //@| }
    //@| loopend 0: proof {
    //@|     let rem = vf_it0_rem0;
    //@|     assert forall|x: RouteRef<T>| ipc(rem, rem.len() as int, addr, *request, x) <==> (exists|ip: RouteIp| gm.contains_key(ip) && sat_ip(ip, addr) && #[trigger] sub_answers(gm[ip], *request, x)) by {
    //@|         if ipc(rem, rem.len() as int, addr, *request, x) { let i = choose|i: int| 0 <= i < rem.len() && sat_ip(*#[trigger] rem[i].0, addr) && sub_answers(*rem[i].1, *request, x); let ip = *rem[i].0; assert(gm.contains_key(ip) && gm[ip] == *rem[i].1); assert(sub_answers(gm[ip], *request, x)); }
    //@|         if exists|ip: RouteIp| gm.contains_key(ip) && sat_ip(ip, addr) && #[trigger] sub_answers(gm[ip], *request, x) { let ip = choose|ip: RouteIp| gm.contains_key(ip) && sat_ip(ip, addr) && #[trigger] sub_answers(gm[ip], *request, x); let i = choose|i: int| 0 <= i < rem.len() && *rem[i].0 == ip; assert(gm[*rem[i].0] == *rem[i].1); assert(sat_ip(*rem[i].0, addr)); }
    //@|     }
    //@| }
    //@| outline `routes.iter().any(|known| Arc::ptr_eq(known, &route))` => `outl_known(&routes, &route)`
    //@| outline `routes.extend(matcher.match_request(request));` => `ext_routes(&mut routes, matcher.match_request(request));`

    // C12 / C02 (ip layer): warming the cache keeps the invariant and the stored set; budget never grows
    //@@ fn src/router/request_matcher/ip.rs :: impl <T>IpMatcher<T> / fn cache -> r
    //@| requires old(self).wf(),
    //@| ensures same_store(*old(self), *final(self)), r <= limit,
    //@| forlift `for matcher in self.matchers.values_mut() {` var `new_limit` helper `vf_values_mut_st` header `|matcher: &mut Sub<T>, vf_st: &mut u64| requires old(matcher).wf() ensures same_store(*old(matcher), *final(matcher)), *final(vf_st) <= *old(vf_st)` ghost `Ghost(post_cache::<T, Sub<T>>())`
    //@| entry broadcast use group_hash_axioms; broadcast use axiom_routeip_key_model;
    //@| before `for matcher in self.matchers.values_mut() {`: let ghost vf_m0 = self.matchers@; let ghost vf_l0 = new_limit;
    //@| exit proof { lemma_vchain_cached::<RouteIp, T, Sub<T>>(vf_m0, self.matchers@, vf_l0, new_limit); lemma_ip_cached(*old(self), *self); }

    //@@ fn src/router/request_matcher/ip.rs :: impl <T>IpMatcher<T> / fn len -> r
    //@| ensures r == self.cnt(),
    //@@ fn src/router/request_matcher/ip.rs :: impl <T>IpMatcher<T> / fn is_empty -> r
    //@| ensures r == (self.cnt() == 0),
}
//@@ unrename MethodMatcher

// ================================================================ method layer (method list: one bucket per listed method; exclusion list: one bucket per list)
// R8 outline (ASSUMED: Display for String is the identity): String::to_string through the blanket ToString impl has no Verus specification
#[verifier::external_body] pub fn outl_string_to_string(s: &String) -> (r: String) ensures r@ == s@ { /* verbatim: method.to_string() */ s.to_string() }
#[verifier::external_body] pub broadcast proof fn axiom_vecstring_key_model() ensures #[trigger] obeys_key_model::<Vec<String>>() {}
pub uninterp spec fn rmethods<T>(r: Route<T>) -> Option<Seq<String>>;
pub uninterp spec fn rexcl<T>(r: Route<T>) -> Option<bool>;
pub open spec fn opt_methods(o: Option<&Vec<String>>) -> Option<Seq<String>> { match o { Some(v) => Some(v@), None => None } }
impl<T> Route<T> {
    #[verifier::external_body] pub fn methods(&self) -> (r: Option<&Vec<String>>) ensures opt_methods(r) == rmethods(*self) { unimplemented!() }
    #[verifier::external_body] pub fn exclude_methods(&self) -> (r: Option<bool>) ensures r == rexcl(*self) { unimplemented!() }
}
// statement of C01 for the method trigger: a rule either lists the methods it applies to, or — when its exclusion flag is SET — the methods
// it does not apply to
pub open spec fn excluded<T>(x: RouteRef<T>) -> bool { rexcl(*x) == Some(true) }
pub open spec fn distinct_methods(v: Seq<String>) -> bool { forall|i: int, j: int| 0 <= i < j < v.len() ==> (#[trigger] v[i])@ != (#[trigger] v[j])@ }
pub open spec fn mlist_has(v: Seq<String>, m: Seq<char>) -> bool { exists|i: int| 0 <= i < v.len() && #[trigger] v[i]@ == m }
pub open spec fn meth_kf<T>() -> spec_fn(String, RouteRef<T>) -> bool { |k: String, x: RouteRef<T>| !excluded(x) && (rmethods(*x) matches Some(v) && mlist_has(v, k@)) }
pub open spec fn excl_kf<T>() -> spec_fn(Vec<String>, RouteRef<T>) -> bool { |k: Vec<String>, x: RouteRef<T>| excluded(x) && rmethods(*x) == Some(k@) && k@.len() > 0 }
pub open spec fn meth_any_ok<T>(x: RouteRef<T>) -> bool { rmethods(*x) matches Some(v) ==> v.len() == 0 }
// R8 outline, ASSUMED contract: `self.exclude_methods.entry(methods.clone()).or_insert_with(|| HeaderMatcher::new(config.clone())).insert(route.clone());`
#[verifier::external_body]
pub fn outl_excl_bucket_insert<T>(m: &mut HashMap<Vec<String>, Sub<T>>, methods: &Vec<String>, config: &Arc<RouterConfig>, route: RouteRef<T>)
    requires map_wf(old(m)@), old(m)@.contains_key(*methods) ==> old(m)@[*methods].cnt() < usize::MAX && forall|x: RouteRef<T>| old(m)@[*methods].holds(x) ==> rid(*x) != rid(*route),
    ensures final(m)@.contains_key(*methods), final(m)@ == old(m)@.insert(*methods, final(m)@[*methods]), final(m)@[*methods].wf(),
        forall|x: RouteRef<T>| #![trigger final(m)@[*methods].holds(x)] final(m)@[*methods].holds(x) <==> (old(m)@.contains_key(*methods) && old(m)@[*methods].holds(x)) || x == route,
        final(m)@[*methods].cnt() == (if old(m)@.contains_key(*methods) { old(m)@[*methods].cnt() } else { 0 }) + 1,
{
    /* verbatim: self.exclude_methods .entry(methods.clone()) .or_insert_with(|| HeaderMatcher::new(config.clone())) .insert(route.clone()); */
    unimplemented!()
}
//@@ rename HeaderMatcher Sub
//@@ item src/router/request_matcher/method.rs :: struct MethodMatcher
impl<T> MethodMatcher<T> {
    pub open spec fn sholds(&self, x: RouteRef<T>) -> bool { self.any_method.holds(x) || map_holds(self.methods@, x) || map_holds(self.exclude_methods@, x) }
    pub open spec fn counted(&self) -> bool { exists|s: Set<RouteRef<T>>| #[trigger] s.len() <= self.count && forall|x: RouteRef<T>| s.contains(x) <==> self.sholds(x) }
    pub open spec fn swf(&self) -> bool {
        &&& self.any_method.wf() && map_wf(self.methods@) && map_wf(self.exclude_methods@)
        &&& self.counted()
        &&& forall|x: RouteRef<T>, y: RouteRef<T>| #[trigger] self.sholds(x) && #[trigger] self.sholds(y) && rid(*x) == rid(*y) ==> x == y
        // bucket-key consistency (C01): inclusion buckets hold rules that list the method and are NOT exclusions; exclusion buckets hold rules whose
        // exclusion flag is set, under their own list; "any" holds rules without (or with an empty) method list
        &&& map_keyed(self.methods@, meth_kf::<T>()) && map_keyed(self.exclude_methods@, excl_kf::<T>()) && map_complete(self.methods@, meth_kf::<T>())
        &&& forall|x: RouteRef<T>| #[trigger] self.any_method.holds(x) ==> meth_any_ok(x)
    }
}
impl<T> Store<T> for MethodMatcher<T> {
    open spec fn holds(&self, x: RouteRef<T>) -> bool { self.sholds(x) }
    open spec fn cnt(&self) -> nat { self.count as nat }
    open spec fn wf(&self) -> bool { self.swf() }
}
pub proof fn lemma_meth_uniq_bridge<T>(n: MethodMatcher<T>)
    requires uniq(n),
    ensures forall|x: RouteRef<T>, y: RouteRef<T>| #[trigger] n.sholds(x) && #[trigger] n.sholds(y) && rid(*x) == rid(*y) ==> x == y,
{
    assert forall|x: RouteRef<T>, y: RouteRef<T>| #[trigger] n.sholds(x) && #[trigger] n.sholds(y) && rid(*x) == rid(*y) implies x == y by { assert(n.holds(x) && n.holds(y)); }
}
#[verifier::external_body] pub proof fn axiom_vecstring_ext() ensures forall|a: Vec<String>, b: Vec<String>| #[trigger] a@ == #[trigger] b@ ==> a == b {}
// exclusion buckets: an id lives in at most one of them, and never in one of them AND in an inclusion bucket
pub proof fn lemma_meth_excl_uniq<T>(s: MethodMatcher<T>)
    requires s.wf(),
    ensures map_uniq(s.exclude_methods@),
        forall|x: RouteRef<T>, y: RouteRef<T>| rid(*x) == rid(*y) && #[trigger] map_holds(s.methods@, x) ==> !#[trigger] map_holds(s.exclude_methods@, y),
{
    axiom_vecstring_ext();
    let m = s.exclude_methods@; let kf = excl_kf::<T>();
    assert forall|k1: Vec<String>, k2: Vec<String>, x: RouteRef<T>, y: RouteRef<T>| m.contains_key(k1) && m.contains_key(k2) && #[trigger] m[k1].holds(x) && #[trigger] m[k2].holds(y) && rid(*x) == rid(*y) implies x == y && k1 == k2 by {
        assert(map_holds(m, x) && map_holds(m, y)); assert(s.sholds(x) && s.sholds(y)); assert(x == y);
        assert(kf(k1, x) && kf(k2, y));
        assert(k1@ == k2@);
    }
    assert forall|x: RouteRef<T>, y: RouteRef<T>| rid(*x) == rid(*y) && #[trigger] map_holds(s.methods@, x) implies !#[trigger] map_holds(s.exclude_methods@, y) by {
        if map_holds(s.exclude_methods@, y) {
            assert(s.sholds(x) && s.sholds(y)); assert(x == y);
            let k1 = choose|k1: String| s.methods@.contains_key(k1) && #[trigger] s.methods@[k1].holds(x);
            let k2 = choose|k2: Vec<String>| m.contains_key(k2) && #[trigger] m[k2].holds(y);
            assert(meth_kf::<T>()(k1, x)); assert(kf(k2, y));
        }
    }
}
pub proof fn lemma_meth_wf<T>(s: MethodMatcher<T>)
    requires s.wf(),
    ensures uniq(s), s.cnt() == 0 ==> forall|x: RouteRef<T>| !s.holds(x), s.cnt() <= usize::MAX,
{
    let w = choose|w: Set<RouteRef<T>>| #[trigger] w.len() <= s.count && forall|x: RouteRef<T>| w.contains(x) <==> s.sholds(x);
    if s.count == 0 { assert forall|x: RouteRef<T>| !s.holds(x) by { if s.sholds(x) { assert(w.contains(x)); assert(w.len() > 0) by { if w.len() == 0 { assert(w =~= Set::<RouteRef<T>>::empty()); } } } } }
}
pub proof fn lemma_meth_counted_insert<T>(o: MethodMatcher<T>, n: MethodMatcher<T>, rt: RouteRef<T>)
    requires o.counted(), n.count == o.count + 1, forall|x: RouteRef<T>| #![trigger n.sholds(x)] n.sholds(x) <==> o.sholds(x) || x == rt,
    ensures n.counted(),
{
    let w = choose|w: Set<RouteRef<T>>| #[trigger] w.len() <= o.count && forall|x: RouteRef<T>| w.contains(x) <==> o.sholds(x);
    let w2 = w.insert(rt);
    assert(w2.len() <= n.count && forall|x: RouteRef<T>| w2.contains(x) <==> n.sholds(x));
}
pub proof fn lemma_meth_counted_sub<T>(o: MethodMatcher<T>, n: MethodMatcher<T>, dec: bool)
    requires o.counted(), forall|x: RouteRef<T>| #[trigger] n.sholds(x) ==> o.sholds(x),
        !dec ==> n.count == o.count,
        dec ==> n.count + 1 == o.count && exists|x0: RouteRef<T>| o.sholds(x0) && !n.sholds(x0),
    ensures n.counted(),
{
    let w = choose|w: Set<RouteRef<T>>| #[trigger] w.len() <= o.count && forall|x: RouteRef<T>| w.contains(x) <==> o.sholds(x);
    let w2 = w.filter(|x: RouteRef<T>| n.sholds(x));
    w.lemma_len_filter(|x: RouteRef<T>| n.sholds(x));
    assert forall|x: RouteRef<T>| w2.contains(x) <==> n.sholds(x) by {}
    if dec {
        let x0 = choose|x0: RouteRef<T>| o.sholds(x0) && !n.sholds(x0);
        assert(w.contains(x0) && !w2.contains(x0));
        assert(w2.subset_of(w.remove(x0)));
        vstd::set_lib::lemma_len_subset(w2, w.remove(x0));
    }
    assert(w2.len() <= n.count);
}
pub proof fn lemma_meth_inserted<T>(o: MethodMatcher<T>, n: MethodMatcher<T>, rt: RouteRef<T>)
    requires o.wf(), forall|x: RouteRef<T>| o.holds(x) ==> rid(*x) != rid(*rt), n.count == o.count + 1,
        n.any_method.wf(), map_wf(n.methods@), map_wf(n.exclude_methods@), map_keyed(n.methods@, meth_kf::<T>()), map_keyed(n.exclude_methods@, excl_kf::<T>()), map_complete(n.methods@, meth_kf::<T>()),
        forall|x: RouteRef<T>| #![trigger n.sholds(x)] n.sholds(x) <==> o.sholds(x) || x == rt,
        forall|x: RouteRef<T>| #[trigger] n.any_method.holds(x) ==> meth_any_ok(x),
    ensures inserted_rel(o, n, rt),
{
    lemma_meth_counted_insert(o, n, rt);
    assert forall|x: RouteRef<T>| #![trigger n.holds(x)] #![trigger o.holds(x)] n.holds(x) <==> o.holds(x) || x == rt by {}
    lemma_uniq_inserted(o, n, rt); lemma_meth_uniq_bridge(n);
}

pub proof fn lemma_meth_removed_any<T>(o: MethodMatcher<T>, n: MethodMatcher<T>, id: Seq<char>, x0: RouteRef<T>)
    requires o.wf(), n.methods@ == o.methods@, n.exclude_methods@ == o.exclude_methods@, removed_rel(o.any_method, n.any_method, id, Some(x0)), n.count + 1 == o.count,
    ensures removed_rel(o, n, id, Some(x0)),
{
    assert(o.holds(x0));
    assert forall|y: RouteRef<T>| #![trigger n.holds(y)] #![trigger o.holds(y)] n.holds(y) <==> o.holds(y) && rid(*y) != id by { if o.holds(y) && rid(*y) == id { assert(y == x0); } }
    lemma_uniq_subset(o, n); lemma_meth_uniq_bridge(n);
    assert(o.sholds(x0) && !n.sholds(x0));
    lemma_meth_counted_sub(o, n, true);
    assert forall|x: RouteRef<T>| #[trigger] n.any_method.holds(x) implies meth_any_ok(x) by { assert(o.any_method.holds(x)); }
}
pub proof fn lemma_meth_removed<T>(o: MethodMatcher<T>, n: MethodMatcher<T>, id: Seq<char>, r: Option<RouteRef<T>>)
    requires o.wf(), removed_rel(o.any_method, n.any_method, id, None::<RouteRef<T>>), entries_removed(o.methods@, n.methods@, id), entries_removed(o.exclude_methods@, n.exclude_methods@, id),
        r matches Some(x) ==> rid(*x) == id && (map_holds(o.methods@, x) || map_holds(o.exclude_methods@, x)),
        r is None ==> !map_holds_id(o.methods@, id) && !map_holds_id(o.exclude_methods@, id),
        n.count + (if r is Some { 1int } else { 0int }) == o.count,
    ensures removed_rel(o, n, id, r),
{
    lemma_sub_empty::<T>();
    lemma_map_removed_holds(o.methods@, n.methods@, id, meth_kf::<T>());
    lemma_map_removed_holds(o.exclude_methods@, n.exclude_methods@, id, excl_kf::<T>());
    assert forall|y: RouteRef<T>| #![trigger n.holds(y)] #![trigger o.holds(y)] n.holds(y) <==> o.holds(y) && rid(*y) != id by {
        if o.any_method.holds(y) { assert(holds_id(o.any_method, id) || rid(*y) != id); }
    }
    if r is Some { let x = r.unwrap(); assert(o.holds(x)); assert(o.sholds(x) && !n.sholds(x)); }
    else {
        assert forall|y: RouteRef<T>| #[trigger] o.holds(y) implies rid(*y) != id by {
            if o.any_method.holds(y) { assert(holds_id(o.any_method, id) || rid(*y) != id); }
            if map_holds(o.methods@, y) { let k = choose|k: String| o.methods@.contains_key(k) && #[trigger] o.methods@[k].holds(y); assert(map_holds_id(o.methods@, id) || rid(*y) != id); }
            if map_holds(o.exclude_methods@, y) { let k = choose|k: Vec<String>| o.exclude_methods@.contains_key(k) && #[trigger] o.exclude_methods@[k].holds(y); assert(map_holds_id(o.exclude_methods@, id) || rid(*y) != id); }
        }
    }
    lemma_uniq_subset(o, n); lemma_meth_uniq_bridge(n);
    lemma_meth_counted_sub(o, n, r is Some);
    assert forall|x: RouteRef<T>| #[trigger] n.any_method.holds(x) implies meth_any_ok(x) by { assert(o.any_method.holds(x)); }
}
pub proof fn lemma_meth_cached<T>(o: MethodMatcher<T>, n: MethodMatcher<T>)
    requires o.wf(), same_store(o.any_method, n.any_method), entries_same(o.methods@, n.methods@), entries_same(o.exclude_methods@, n.exclude_methods@), n.count == o.count,
    ensures same_store(o, n),
{
    lemma_map_same(o.methods@, n.methods@, meth_kf::<T>());
    lemma_map_same(o.exclude_methods@, n.exclude_methods@, excl_kf::<T>());
    assert forall|x: RouteRef<T>| #![trigger n.holds(x)] #![trigger o.holds(x)] n.holds(x) <==> o.holds(x) by {}
    lemma_uniq_subset(o, n); lemma_meth_uniq_bridge(n);
    lemma_meth_counted_sub(o, n, false);
    assert forall|x: RouteRef<T>| #[trigger] n.any_method.holds(x) implies meth_any_ok(x) by { assert(o.any_method.holds(x)); }
}
pub proof fn lemma_meth_batched<T>(o: MethodMatcher<T>, n: MethodMatcher<T>, ids: Set<String>)
    requires o.wf(), batched_rel(o.any_method, n.any_method, ids), entries_batched(o.methods@, n.methods@, ids), entries_batched(o.exclude_methods@, n.exclude_methods@, ids), n.count == o.count,
    ensures batched_rel(o, n, ids),
{
    lemma_sub_empty::<T>();
    lemma_map_batched(o.methods@, n.methods@, ids, meth_kf::<T>());
    lemma_map_batched(o.exclude_methods@, n.exclude_methods@, ids, excl_kf::<T>());
    assert forall|y: RouteRef<T>| #![trigger n.holds(y)] #![trigger o.holds(y)] n.holds(y) <==> o.holds(y) && !ids_has(ids, rid(*y)) by {}
    lemma_uniq_subset(o, n); lemma_meth_uniq_bridge(n);
    lemma_meth_counted_sub(o, n, false);
    assert forall|x: RouteRef<T>| #[trigger] n.any_method.holds(x) implies meth_any_ok(x) by { assert(o.any_method.holds(x)); }
}

// C01 exactness of the method layer. The answer is the membership-exact contract verified for MethodMatcher::match_request in unit rtr
// (same formula): the any-method bucket, the bucket of the request's method, and every exclusion bucket whose list lacks the method.
pub uninterp spec fn req_method(q: Request) -> Seq<char>;
pub open spec fn method_answers<T>(m: MethodMatcher<T>, q: Request, x: RouteRef<T>) -> bool {
    ||| sub_answers(m.any_method, q, x)
    ||| exists|k: String| k@ == req_method(q) && m.methods@.contains_key(k) && #[trigger] sub_answers(m.methods@[k], q, x)
    ||| exists|ms: Vec<String>| m.exclude_methods@.contains_key(ms) && !mlist_has(ms@, req_method(q)) && #[trigger] sub_answers(m.exclude_methods@[ms], q, x)
}
// the method trigger of a rule: no (or an empty) list; or the request's method is listed; or — exclusion flag set — it is NOT listed
pub open spec fn method_sat<T>(x: RouteRef<T>, q: Request) -> bool {
    match rmethods(*x) { None => true, Some(v) => v.len() == 0 || (if excluded(x) { !mlist_has(v, req_method(q)) } else { mlist_has(v, req_method(q)) }) }
}
pub proof fn lemma_method_exact<T>(m: MethodMatcher<T>, q: Request)
    requires m.wf(),
    ensures forall|x: RouteRef<T>| #[trigger] method_answers(m, q, x) <==> m.holds(x) && method_sat(x, q) && sat_below(x, q),
{
    axiom_string_ext();
    lemma_sub_exact(m.any_method, q);
    let kf = meth_kf::<T>(); let ekf = excl_kf::<T>(); let rm = req_method(q);
    assert forall|x: RouteRef<T>| #[trigger] method_answers(m, q, x) <==> m.holds(x) && method_sat(x, q) && sat_below(x, q) by {
        if sub_answers(m.any_method, q, x) { assert(m.any_method.holds(x)); assert(meth_any_ok(x)); }
        if exists|k: String| k@ == rm && m.methods@.contains_key(k) && #[trigger] sub_answers(m.methods@[k], q, x) {
            let k = choose|k: String| k@ == rm && m.methods@.contains_key(k) && #[trigger] sub_answers(m.methods@[k], q, x);
            lemma_sub_exact(m.methods@[k], q); assert(m.methods@[k].holds(x)); assert(map_holds(m.methods@, x)); assert(kf(k, x));
            let v = rmethods(*x).unwrap(); assert(mlist_has(v, rm)); assert(v.len() > 0);
        }
        if exists|ms: Vec<String>| m.exclude_methods@.contains_key(ms) && !mlist_has(ms@, rm) && #[trigger] sub_answers(m.exclude_methods@[ms], q, x) {
            let ms = choose|ms: Vec<String>| m.exclude_methods@.contains_key(ms) && !mlist_has(ms@, rm) && #[trigger] sub_answers(m.exclude_methods@[ms], q, x);
            lemma_sub_exact(m.exclude_methods@[ms], q); assert(m.exclude_methods@[ms].holds(x)); assert(map_holds(m.exclude_methods@, x)); assert(ekf(ms, x));
        }
        if m.holds(x) && method_sat(x, q) && sat_below(x, q) {
            if m.any_method.holds(x) { assert(sub_answers(m.any_method, q, x)); }
            else if map_holds(m.methods@, x) {
                let k0 = choose|k0: String| m.methods@.contains_key(k0) && #[trigger] m.methods@[k0].holds(x); assert(kf(k0, x));
                let v = rmethods(*x).unwrap(); assert(v.len() > 0); assert(mlist_has(v, rm));
                let i = choose|i: int| 0 <= i < v.len() && #[trigger] v[i]@ == rm; let key = v[i];
                assert(mlist_has(v, key@)); assert(kf(key, x));
                assert(m.methods@.contains_key(key) && m.methods@[key].holds(x));
                lemma_sub_exact(m.methods@[key], q); assert(sub_answers(m.methods@[key], q, x));
            } else {
                let ms = choose|ms: Vec<String>| m.exclude_methods@.contains_key(ms) && #[trigger] m.exclude_methods@[ms].holds(x); assert(ekf(ms, x));
                lemma_sub_exact(m.exclude_methods@[ms], q); assert(sub_answers(m.exclude_methods@[ms], q, x)); assert(!mlist_has(ms@, rm));
            }
        }
    }
}
impl<T> MethodMatcher<T> {
    //@@ fn src/router/request_matcher/method.rs :: impl <T>MethodMatcher<T> / fn new -> r
    //@| ensures r.wf(), r.cnt() == 0, forall|x: RouteRef<T>| !r.holds(x),
    //@| entry broadcast use group_hash_axioms; broadcast use axiom_string_key_model; broadcast use axiom_vecstring_key_model;
    //@| exit proof { let w = Set::<RouteRef<T>>::empty(); assert(w.len() <= vf_ret.count && forall|x: RouteRef<T>| w.contains(x) <==> vf_ret.sholds(x)); }

    // domain restrictions (stated): fewer than 2^64 insertions per bucket; the listed methods of a route are pairwise distinct
    //@@ fn src/router/request_matcher/method.rs :: impl <T>MethodMatcher<T> / fn insert
    //@| requires old(self).wf(), old(self).cnt() < usize::MAX, forall|x: RouteRef<T>| old(self).holds(x) ==> rid(*x) != rid(*route),
    //@|     old(self).any_method.cnt() < usize::MAX, forall|k: String| old(self).methods@.contains_key(k) ==> (#[trigger] old(self).methods@[k]).cnt() < usize::MAX,
    //@|     forall|k: Vec<String>| old(self).exclude_methods@.contains_key(k) ==> (#[trigger] old(self).exclude_methods@[k]).cnt() < usize::MAX,
    //@|     rmethods(*route) matches Some(v) ==> distinct_methods(v),
    //@| ensures inserted_rel(*old(self), *final(self), route),
    //@| attr #[verifier::loop_isolation(false)]
    //@| outline `self.exclude_methods .entry(methods.clone()) .or_insert_with(|| HeaderMatcher::new(config.clone())) .insert(route.clone());` => `outl_excl_bucket_insert(&mut self.exclude_methods, methods, &config, route.clone());`
    //@| outline `method.to_string()` => `outl_string_to_string(method)`
    //@| opt r6i:0
    //@| entry broadcast use group_hash_axioms; broadcast use axiom_string_key_model; broadcast use axiom_vecstring_key_model; broadcast use axiom_borrow_string_upd; broadcast use axiom_arc_cloned;
    //@|     let ghost m0 = self.methods@; let ghost e0 = self.exclude_methods@; let ghost rt = route; let ghost kf = meth_kf::<T>(); let ghost ekf = excl_kf::<T>();
    //@|     proof { axiom_string_ext(); }
    //@| before `return;`: proof {
    //@|     let key = *methods;
    //@|     if e0.contains_key(key) { assert forall|x: RouteRef<T>| e0[key].holds(x) implies rid(*x) != rid(*route) by { assert(map_holds(e0, x)); assert(old(self).sholds(x)); assert(old(self).holds(x)); } }
    //@| }
    //@| after `.insert(route.clone());`#0: proof {
    //@|     let key = *methods;
    //@|     // a rule filed under the exclusion lists must have its exclusion flag SET (C01, method trigger)
    //@|     assert(excluded(rt));
    //@|     assert(ekf(key, rt));
    //@|     lemma_map_inserted(e0, self.exclude_methods@, key, rt, ekf);
    //@|     assert forall|x: RouteRef<T>| #![trigger self.sholds(x)] self.sholds(x) <==> old(self).sholds(x) || x == rt by {}
    //@|     assert(self.methods@ == m0); assert(map_complete(m0, kf));
    //@|     lemma_meth_inserted(*old(self), *self, rt);
    //@| }
    //@| forlabel 0: it
    //@| loopbefore 0: let ghost iv = methods@; proof { assert(rmethods(*rt) == Some(iv)); assert(!excluded(rt)); }
    //@| loop 0: invariant iter_ref_ok(it.history@, it.index@, it.snapshot@.remaining(), iv), rmethods(*rt) == Some(iv), route == rt, !excluded(rt),
    //@|     distinct_methods(iv),
    //@|     self.any_method == old(self).any_method, self.exclude_methods@ == e0, self.count == old(self).count + 1, kf == meth_kf::<T>(), m0 == old(self).methods@, e0 == old(self).exclude_methods@,
    //@|     old(self).wf(), forall|x: RouteRef<T>| old(self).holds(x) ==> rid(*x) != rid(*rt), forall|k: String| m0.contains_key(k) ==> (#[trigger] m0[k]).cnt() < usize::MAX,
    //@|     map_wf(self.methods@), map_keyed(self.methods@, kf),
    //@|     forall|x: RouteRef<T>| #![trigger map_holds(self.methods@, x)] map_holds(self.methods@, x) <==> map_holds(m0, x) || (it.index@ > 0 && x == rt),
    //@|     forall|j: int| it.index@ <= j < iv.len() && self.methods@.contains_key(#[trigger] iv[j]) ==> m0.contains_key(iv[j]) && self.methods@[iv[j]] == m0[iv[j]],
    //@|     forall|j: int| 0 <= j < it.index@ ==> self.methods@.contains_key(#[trigger] iv[j]) && self.methods@[iv[j]].holds(rt),
    //@|     forall|kk: String, x: RouteRef<T>| m0.contains_key(kk) && #[trigger] m0[kk].holds(x) ==> self.methods@.contains_key(kk) && self.methods@[kk].holds(x),
    //@| loophead 0: let ghost m1 = self.methods@; let ghost k = it.index@ as int;
    //@|     proof { assert(*method == iv[k]);
    //@|         if m1.contains_key(*method) { assert(m1[*method] == m0[*method]); assert forall|x: RouteRef<T>| m1[*method].holds(x) implies rid(*x) != rid(*route) by { assert(m0[*method].holds(x)); assert(map_holds(m0, x)); assert(old(self).sholds(x)); assert(old(self).holds(x)); } } }
    //@| looptail 0: proof {
    //@|     let key = iv[k];
    //@|     assert(self.methods@ =~= m1.insert(key, self.methods@[key]));
    //@|     assert(kf(key, rt)) by { assert(iv[k]@ == key@); assert(mlist_has(iv, key@)); }
    //@|     lemma_map_inserted(m1, self.methods@, key, rt, kf);
    //@|     assert forall|x: RouteRef<T>| #![trigger map_holds(self.methods@, x)] map_holds(self.methods@, x) <==> map_holds(m0, x) || x == rt by { assert(map_holds(self.methods@, x) <==> map_holds(m1, x) || x == rt); }
    //@|     assert forall|j: int| k + 1 <= j < iv.len() && self.methods@.contains_key(#[trigger] iv[j]) implies m0.contains_key(iv[j]) && self.methods@[iv[j]] == m0[iv[j]] by { assert(iv[j]@ != key@); assert(iv[j] != key); assert(m1.contains_key(iv[j])); }
    //@|     assert forall|j: int| 0 <= j < k + 1 implies self.methods@.contains_key(#[trigger] iv[j]) && self.methods@[iv[j]].holds(rt) by { if j < k { assert(iv[j]@ != key@); assert(iv[j] != key); assert(m1.contains_key(iv[j]) && m1[iv[j]].holds(rt)); assert(self.methods@[iv[j]] == m1[iv[j]]); } }
    //@|     assert forall|kk: String, x: RouteRef<T>| m0.contains_key(kk) && #[trigger] m0[kk].holds(x) implies self.methods@.contains_key(kk) && self.methods@[kk].holds(x) by { assert(m1.contains_key(kk) && m1[kk].holds(x)); if kk != key { assert(self.methods@[kk] == m1[kk]); } }
    //@| }
    //@| exit proof {
    //@|     assert forall|x: RouteRef<T>| #![trigger self.sholds(x)] self.sholds(x) <==> old(self).sholds(x) || x == rt by {}
    //@|     assert forall|x: RouteRef<T>| #[trigger] self.any_method.holds(x) implies meth_any_ok(x) by { if x != rt { assert(old(self).any_method.holds(x)); } }
    //@|     assert forall|kk: String, x: RouteRef<T>| #![trigger kf(kk, x), map_holds(self.methods@, x)] kf(kk, x) && map_holds(self.methods@, x) implies self.methods@.contains_key(kk) && self.methods@[kk].holds(x) by {
    //@|         if x == rt { let v = rmethods(*rt).unwrap(); let j = choose|j: int| 0 <= j < v.len() && #[trigger] v[j]@ == kk@; assert(v[j] == kk); if map_holds(m0, rt) { assert(old(self).sholds(rt)); assert(old(self).holds(rt)); } assert(self.methods@.contains_key(v[j])); }
    //@|         else { assert(map_holds(m0, x)); assert(m0.contains_key(kk) && m0[kk].holds(x)); }
    //@|     }
    //@|     lemma_meth_inserted(*old(self), *self, rt);
    //@| }

    //@@ fn src/router/request_matcher/method.rs :: impl <T>MethodMatcher<T> / fn remove -> r
    //@| requires old(self).wf(),
    //@| ensures removed_rel(*old(self), *final(self), id@, r),
    //@| statelift `self.methods.retain(|_, matcher|` var `removed` helper `vf_retain_st` header `|_k: &String, matcher: &mut Sub<T>, vf_st: &mut Option<RouteRef<T>>| -> (b: bool) requires old(matcher).wf() ensures exists|r: Option<RouteRef<T>>| #[trigger] removed_rel(*old(matcher), *final(matcher), id@, r) && *final(vf_st) == (if r is Some { r } else { *old(vf_st) }) && (!b ==> final(matcher).cnt() == 0)` ghost `Ghost(post_rm::<String, T, Sub<T>>(id@))`
    //@| statelift `self.exclude_methods.retain(|_, matcher|` var `removed` helper `vf_retain_st` header `|_k: &Vec<String>, matcher: &mut Sub<T>, vf_st: &mut Option<RouteRef<T>>| -> (b: bool) requires old(matcher).wf() ensures ((*old(vf_st)) is Some && *final(matcher) == *old(matcher) && *final(vf_st) == *old(vf_st) && b) || (exists|r: Option<RouteRef<T>>| #[trigger] removed_rel(*old(matcher), *final(matcher), id@, r) && *final(vf_st) == (if r is Some { r } else { *old(vf_st) }) && (!b ==> final(matcher).cnt() == 0))` ghost `Ghost(post_rm_t::<Vec<String>, T, Sub<T>>(id@))`
    //@| entry broadcast use group_hash_axioms; broadcast use axiom_string_key_model; broadcast use axiom_vecstring_key_model;
    //@|     proof { lemma_meth_wf(*self); }
    //@| before `self.methods.retain(`: let ghost vf_m0 = self.methods@; let ghost vf_r0 = removed;
    //@| after `!matcher.is_empty() });`#0: proof { lemma_chain_removed(vf_m0, self.methods@, vf_r0, removed, id@); }
    //@| before `self.exclude_methods.retain(`: let ghost vf_m1 = self.exclude_methods@; let ghost vf_r1 = removed;
    //@| after `!matcher.is_empty() });`#1: proof {
    //@|     lemma_meth_excl_uniq(*old(self));
    //@|     if vf_r1 is Some && map_holds_id(vf_m1, id@) {
    //@|         let (k, y) = choose|k: Vec<String>, y: RouteRef<T>| vf_m1.contains_key(k) && #[trigger] vf_m1[k].holds(y) && rid(*y) == id@;
    //@|         assert(map_holds(vf_m1, y)); assert(map_holds_id(vf_m0, id@)); assert(map_holds(vf_m0, vf_r1.unwrap()));
    //@|     }
    //@|     lemma_chain_removed_t(vf_m1, self.exclude_methods@, vf_r1, removed, id@);
    //@| }
    //@| before `self.count -= 1;`#0: proof { assert(old(self).any_method.holds(removed.unwrap())); assert(old(self).sholds(removed.unwrap())); assert(old(self).holds(removed.unwrap())); }
    //@| before `return removed;`: proof { lemma_meth_removed_any(*old(self), *self, id@, removed.unwrap()); }
    //@| after `!matcher.is_empty() });`#1: proof { if removed is Some { assert(old(self).sholds(removed.unwrap())); assert(old(self).holds(removed.unwrap())); } }
    //@| exit proof { lemma_meth_removed(*old(self), *self, id@, removed); }

    //@@ fn src/router/request_matcher/method.rs :: impl <T>MethodMatcher<T> / fn batch_remove -> r
    //@| requires old(self).wf(),
    //@| ensures batched_rel(*old(self), *final(self), ids@),
    //@| closure `|_, matcher|`#0 => `|_k: &String, matcher: &mut Sub<T>| -> (b: bool) requires old(matcher).wf() ensures batched_rel(*old(matcher), *final(matcher), ids@), !b ==> final(matcher).cnt() == 0`
    //@| closure `|_, matcher|`#1 => `|_k: &Vec<String>, matcher: &mut Sub<T>| -> (b: bool) requires old(matcher).wf() ensures batched_rel(*old(matcher), *final(matcher), ids@), !b ==> final(matcher).cnt() == 0`
    //@| entry broadcast use group_hash_axioms; broadcast use axiom_string_key_model; broadcast use axiom_vecstring_key_model;
    //@| exit proof { lemma_meth_batched(*old(self), *self, ids@); }

    // C12 / C02 (method layer): warming the cache keeps the invariant and the stored set; budget never grows
    //@@ fn src/router/request_matcher/method.rs :: impl <T>MethodMatcher<T> / fn cache -> r
    //@| requires old(self).wf(),
    //@| ensures same_store(*old(self), *final(self)), r <= limit,
    //@| forlift `for matcher in self.methods.values_mut() {` var `new_limit` helper `vf_values_mut_st` header `|matcher: &mut Sub<T>, vf_st: &mut u64| requires old(matcher).wf() ensures same_store(*old(matcher), *final(matcher)), *final(vf_st) <= *old(vf_st)` ghost `Ghost(post_cache::<T, Sub<T>>())`
    //@| forlift `for matcher in self.exclude_methods.values_mut() {` var `new_limit` helper `vf_values_mut_st` header `|matcher: &mut Sub<T>, vf_st: &mut u64| requires old(matcher).wf() ensures same_store(*old(matcher), *final(matcher)), *final(vf_st) <= *old(vf_st)` ghost `Ghost(post_cache::<T, Sub<T>>())`
    //@| entry broadcast use group_hash_axioms; broadcast use axiom_string_key_model; broadcast use axiom_vecstring_key_model;
    //@| before `for matcher in self.methods.values_mut() {`: let ghost vf_m0 = self.methods@; let ghost vf_l0 = new_limit;
    //@| before `for matcher in self.exclude_methods.values_mut() {`: proof { lemma_vchain_cached::<String, T, Sub<T>>(vf_m0, self.methods@, vf_l0, new_limit); }
    //@|     let ghost vf_e0 = self.exclude_methods@; let ghost vf_l1 = new_limit;
    //@| exit proof { lemma_vchain_cached::<Vec<String>, T, Sub<T>>(vf_e0, self.exclude_methods@, vf_l1, new_limit); lemma_meth_cached(*old(self), *self); }

    //@@ fn src/router/request_matcher/method.rs :: impl <T>MethodMatcher<T> / fn len -> r
    //@| ensures r == self.cnt(),
    //@@ fn src/router/request_matcher/method.rs :: impl <T>MethodMatcher<T> / fn is_empty -> r
    //@| ensures r == (self.cnt() == 0),
}
//@@ unrename HeaderMatcher

// ================================================================ header layer (one bucket per SET of header conditions)
use std::collections::BTreeSet;
pub uninterp spec fn lowerc(s: Seq<char>) -> Seq<char>;
pub assume_specification [str::to_lowercase] (s: &str) -> (r: std::string::String) ensures r@ == lowerc(s@);
//@@ item src/router/route_header.rs :: enum RouteHeaderKind
//@@ item src/router/route_header.rs :: struct RouteHeader
//@@ item src/router/request_matcher/header.rs :: enum ValueCondition
//@| opt keepderive:PartialEq,Eq,PartialOrd,Ord
//@@ item src/router/request_matcher/header.rs :: struct HeaderCondition
//@| opt keepderive:PartialEq,Eq,PartialOrd,Ord
// R1: derived Clone re-stated structurally (a clone is an equal value)
impl Clone for ValueCondition {
    fn clone(&self) -> (r: Self) ensures r == *self {
        proof { axiom_string_ext(); }
        match self {
            ValueCondition::IsDefined => ValueCondition::IsDefined,
            ValueCondition::IsNotDefined => ValueCondition::IsNotDefined,
            ValueCondition::IsEquals(s) => ValueCondition::IsEquals(s.clone()),
            ValueCondition::IsNotEqualTo(s) => ValueCondition::IsNotEqualTo(s.clone()),
            ValueCondition::Contains(s) => ValueCondition::Contains(s.clone()),
            ValueCondition::DoesNotContain(s) => ValueCondition::DoesNotContain(s.clone()),
            ValueCondition::EndsWith(s) => ValueCondition::EndsWith(s.clone()),
            ValueCondition::StartsWith(s) => ValueCondition::StartsWith(s.clone()),
            ValueCondition::MatchRegex(s) => ValueCondition::MatchRegex(s.clone()),
        }
    }
}
impl Clone for HeaderCondition {
    fn clone(&self) -> (r: Self) ensures r == *self {
        proof { axiom_string_ext(); }
        HeaderCondition { header_name: self.header_name.clone(), condition: self.condition.clone() }
    }
}
// ASSUMED (trusted, listed): the derived Ord of these key types is a total order consistent with Eq (BTreeMap / BTreeSet key model);
// a BTreeSet is determined by its elements; cloning a BTreeSet yields an equal set
#[verifier::external_body] pub broadcast proof fn axiom_hc_key() ensures #[trigger] vstd::std_specs::btree::key_obeys_cmp_spec::<HeaderCondition>() {}
#[verifier::external_body] pub broadcast proof fn axiom_hcset_key() ensures #[trigger] vstd::std_specs::btree::key_obeys_cmp_spec::<BTreeSet<HeaderCondition>>() {}
#[verifier::external_body] pub proof fn axiom_hcset_ext() ensures forall|a: BTreeSet<HeaderCondition>, b: BTreeSet<HeaderCondition>| #[trigger] a@ == #[trigger] b@ ==> a == b {}
#[verifier::external_body] pub fn outl_hcset_clone(s: &BTreeSet<HeaderCondition>) -> (r: BTreeSet<HeaderCondition>) ensures r == *s { /* verbatim: condition_group.clone() */ s.clone() }
pub uninterp spec fn rheaders<T>(r: Route<T>) -> Seq<RouteHeader>;
pub open spec fn rheaders_of<T>(x: RouteRef<T>) -> Seq<RouteHeader> { rheaders(*x) }
impl<T> Route<T> {
    #[verifier::external_body] pub fn headers(&self) -> (r: &Vec<RouteHeader>) ensures r@ == rheaders(*self) { unimplemented!() }
}
// statement of C01 for the header trigger: the condition a header trigger denotes (name compared case-insensitively)
pub open spec fn kind_cond(k: RouteHeaderKind, c: ValueCondition) -> bool {
    match (k, c) {
        (RouteHeaderKind::IsDefined, ValueCondition::IsDefined) => true,
        (RouteHeaderKind::IsNotDefined, ValueCondition::IsNotDefined) => true,
        (RouteHeaderKind::IsEquals(a), ValueCondition::IsEquals(b)) => a@ == b@,
        (RouteHeaderKind::IsNotEqualTo(a), ValueCondition::IsNotEqualTo(b)) => a@ == b@,
        (RouteHeaderKind::Contains(a), ValueCondition::Contains(b)) => a@ == b@,
        (RouteHeaderKind::DoesNotContain(a), ValueCondition::DoesNotContain(b)) => a@ == b@,
        (RouteHeaderKind::EndsWith(a), ValueCondition::EndsWith(b)) => a@ == b@,
        (RouteHeaderKind::StartsWith(a), ValueCondition::StartsWith(b)) => a@ == b@,
        (RouteHeaderKind::MatchRegex(m), ValueCondition::MatchRegex(b)) => m.regex@ == b@,
        _ => false,
    }
}
pub open spec fn is_cond_of(c: HeaderCondition, h: RouteHeader) -> bool { c.header_name@ == lowerc(h.name@) && kind_cond(h.kind, c.condition) }
// the bucket key of a route: exactly the conditions its header triggers denote
pub open spec fn group_of(k: Set<HeaderCondition>, hs: Seq<RouteHeader>) -> bool {
    forall|c: HeaderCondition| #[trigger] k.contains(c) <==> exists|i: int| 0 <= i < hs.len() && is_cond_of(c, #[trigger] hs[i])
}
pub open spec fn hdr_kf<T>() -> spec_fn(BTreeSet<HeaderCondition>, RouteRef<T>) -> bool { |k: BTreeSet<HeaderCondition>, x: RouteRef<T>| rheaders(*x).len() > 0 && group_of(k@, rheaders(*x)) }
//@@ rename DateTimeMatcher Sub
//@@ item src/router/request_matcher/header.rs :: struct HeaderMatcher
impl<T> HeaderMatcher<T> {
    pub open spec fn sholds(&self, x: RouteRef<T>) -> bool { self.any_header.holds(x) || map_holds(self.condition_groups@, x) }
    pub open spec fn counted(&self) -> bool { exists|s: Set<RouteRef<T>>| #[trigger] s.len() <= self.count && forall|x: RouteRef<T>| s.contains(x) <==> self.sholds(x) }
    pub open spec fn swf(&self) -> bool {
        &&& self.any_header.wf() && map_wf(self.condition_groups@)
        &&& self.counted()
        &&& forall|x: RouteRef<T>, y: RouteRef<T>| #[trigger] self.sholds(x) && #[trigger] self.sholds(y) && rid(*x) == rid(*y) ==> x == y
        // bucket-key consistency (C01): a rule is filed under exactly the set of conditions its header triggers denote; rules without
        // header trigger under "any"
        &&& map_keyed(self.condition_groups@, hdr_kf::<T>())
        &&& forall|x: RouteRef<T>| #[trigger] self.any_header.holds(x) ==> rheaders(*x).len() == 0
    }
}
impl<T> Store<T> for HeaderMatcher<T> {
    open spec fn holds(&self, x: RouteRef<T>) -> bool { self.sholds(x) }
    open spec fn cnt(&self) -> nat { self.count as nat }
    open spec fn wf(&self) -> bool { self.swf() }
}
pub proof fn lemma_hdr_uniq_bridge<T>(n: HeaderMatcher<T>)
    requires uniq(n),
    ensures forall|x: RouteRef<T>, y: RouteRef<T>| #[trigger] n.sholds(x) && #[trigger] n.sholds(y) && rid(*x) == rid(*y) ==> x == y,
{
    assert forall|x: RouteRef<T>, y: RouteRef<T>| #[trigger] n.sholds(x) && #[trigger] n.sholds(y) && rid(*x) == rid(*y) implies x == y by { assert(n.holds(x) && n.holds(y)); }
}
// ASSUMED (trusted, listed): a BTreeSet / a Vec<String> is determined by its view (structural equality of the std collections)
#[verifier::external_body] pub proof fn axiom_btreeset_ext<E>() ensures forall|a: BTreeSet<E>, b: BTreeSet<E>| #[trigger] a@ == #[trigger] b@ ==> a == b {}
pub proof fn lemma_hdr_map_uniq<T>(s: HeaderMatcher<T>)
    requires s.wf(),
    ensures map_uniq(s.condition_groups@),
{
    axiom_btreeset_ext::<HeaderCondition>();
    let m = s.condition_groups@; let kf = hdr_kf::<T>();
    assert forall|k1: BTreeSet<HeaderCondition>, k2: BTreeSet<HeaderCondition>, x: RouteRef<T>, y: RouteRef<T>| m.contains_key(k1) && m.contains_key(k2) && #[trigger] m[k1].holds(x) && #[trigger] m[k2].holds(y) && rid(*x) == rid(*y) implies x == y && k1 == k2 by {
        assert(map_holds(m, x) && map_holds(m, y)); assert(s.sholds(x) && s.sholds(y)); assert(x == y);
        assert(kf(k1, x) && kf(k2, y));
        assert(k1@ =~= k2@);
    }
}
pub proof fn lemma_hdr_wf<T>(s: HeaderMatcher<T>)
    requires s.wf(),
    ensures uniq(s), s.cnt() == 0 ==> forall|x: RouteRef<T>| !s.holds(x), s.cnt() <= usize::MAX,
{
    let w = choose|w: Set<RouteRef<T>>| #[trigger] w.len() <= s.count && forall|x: RouteRef<T>| w.contains(x) <==> s.sholds(x);
    if s.count == 0 { assert forall|x: RouteRef<T>| !s.holds(x) by { if s.sholds(x) { assert(w.contains(x)); assert(w.len() > 0) by { if w.len() == 0 { assert(w =~= Set::<RouteRef<T>>::empty()); } } } } }
}
pub proof fn lemma_hdr_counted_insert<T>(o: HeaderMatcher<T>, n: HeaderMatcher<T>, rt: RouteRef<T>)
    requires o.counted(), n.count == o.count + 1, forall|x: RouteRef<T>| #![trigger n.sholds(x)] n.sholds(x) <==> o.sholds(x) || x == rt,
    ensures n.counted(),
{
    let w = choose|w: Set<RouteRef<T>>| #[trigger] w.len() <= o.count && forall|x: RouteRef<T>| w.contains(x) <==> o.sholds(x);
    let w2 = w.insert(rt);
    assert(w2.len() <= n.count && forall|x: RouteRef<T>| w2.contains(x) <==> n.sholds(x));
}
pub proof fn lemma_hdr_counted_sub<T>(o: HeaderMatcher<T>, n: HeaderMatcher<T>, dec: bool)
    requires o.counted(), forall|x: RouteRef<T>| #[trigger] n.sholds(x) ==> o.sholds(x),
        !dec ==> n.count == o.count,
        dec ==> n.count + 1 == o.count && exists|x0: RouteRef<T>| o.sholds(x0) && !n.sholds(x0),
    ensures n.counted(),
{
    let w = choose|w: Set<RouteRef<T>>| #[trigger] w.len() <= o.count && forall|x: RouteRef<T>| w.contains(x) <==> o.sholds(x);
    let w2 = w.filter(|x: RouteRef<T>| n.sholds(x));
    w.lemma_len_filter(|x: RouteRef<T>| n.sholds(x));
    assert forall|x: RouteRef<T>| w2.contains(x) <==> n.sholds(x) by {}
    if dec {
        let x0 = choose|x0: RouteRef<T>| o.sholds(x0) && !n.sholds(x0);
        assert(w.contains(x0) && !w2.contains(x0));
        assert(w2.subset_of(w.remove(x0)));
        vstd::set_lib::lemma_len_subset(w2, w.remove(x0));
    }
    assert(w2.len() <= n.count);
}

pub proof fn lemma_hdr_inserted<T>(o: HeaderMatcher<T>, n: HeaderMatcher<T>, rt: RouteRef<T>)
    requires o.wf(), forall|x: RouteRef<T>| o.holds(x) ==> rid(*x) != rid(*rt), n.count == o.count + 1,
        n.any_header.wf(), map_wf(n.condition_groups@), map_keyed(n.condition_groups@, hdr_kf::<T>()),
        forall|x: RouteRef<T>| #![trigger n.sholds(x)] n.sholds(x) <==> o.sholds(x) || x == rt,
        forall|x: RouteRef<T>| #[trigger] n.any_header.holds(x) ==> rheaders(*x).len() == 0,
    ensures inserted_rel(o, n, rt),
{
    lemma_hdr_counted_insert(o, n, rt);
    assert forall|x: RouteRef<T>| #![trigger n.holds(x)] #![trigger o.holds(x)] n.holds(x) <==> o.holds(x) || x == rt by {}
    lemma_uniq_inserted(o, n, rt); lemma_hdr_uniq_bridge(n);
}

// ASSUMED specification of BTreeMap::retain (vstd has none): same shape as HashMap::retain
pub assume_specification<K: std::cmp::Ord, V, A: std::alloc::Allocator + Clone, F: FnMut(&K, &mut V) -> bool> [std::collections::BTreeMap::<K, V, A>::retain] (m: &mut std::collections::BTreeMap<K, V, A>, f: F)
    requires forall|k: &K, v: &mut V| old(m)@.contains_key(*k) && *v == old(m)@[*k] ==> #[trigger] f.requires((k, v)),
    ensures
        forall|k: K| #[trigger] final(m)@.contains_key(k) ==> old(m)@.contains_key(k) && exists|v: &mut V| *v == old(m)@[k] && *final(v) == final(m)@[k] && #[trigger] f.ensures((&k, v), true),
        forall|k: K| old(m)@.contains_key(k) && !#[trigger] final(m)@.contains_key(k) ==> exists|v: &mut V| *v == old(m)@[k] && #[trigger] f.ensures((&k, v), false);
// R13 helper for BTreeMap (same ASSUMED visiting contract as vf_retain_st)
#[verifier::external_body]
pub fn vf_retain_st_bt<K: std::cmp::Ord, V, St, F: FnMut(&K, &mut V, &mut St) -> bool>(m: &mut BTreeMap<K, V>, st: &mut St, f: F, post: Ghost<spec_fn(K, V, V, St, St, bool) -> bool>)
    requires forall|k: &K, v: &mut V, s: &mut St| old(m)@.contains_key(*k) && *v == old(m)@[*k] ==> #[trigger] f.requires((k, v, s)),
        forall|k: &K, v: &mut V, s: &mut St, b: bool| old(m)@.contains_key(*k) && *v == old(m)@[*k] && #[trigger] f.ensures((k, v, s), b) ==> post@(*k, *v, *final(v), *s, *final(s), b),
    ensures chain(old(m)@, final(m)@, *old(st), *final(st), post@),
{ /* verbatim: RECV.retain(|k, v| f(k, v, &mut VAR)) */ let mut f = f; m.retain(|k, v| f(k, v, st)) }
pub proof fn lemma_hdr_removed_any<T>(o: HeaderMatcher<T>, n: HeaderMatcher<T>, id: Seq<char>, x0: RouteRef<T>)
    requires o.wf(), n.condition_groups@ == o.condition_groups@, removed_rel(o.any_header, n.any_header, id, Some(x0)), n.count + 1 == o.count,
    ensures removed_rel(o, n, id, Some(x0)),
{
    assert(o.holds(x0));
    assert forall|y: RouteRef<T>| #![trigger n.holds(y)] #![trigger o.holds(y)] n.holds(y) <==> o.holds(y) && rid(*y) != id by { if o.holds(y) && rid(*y) == id { assert(y == x0); } }
    lemma_uniq_subset(o, n); lemma_hdr_uniq_bridge(n);
    assert(o.sholds(x0) && !n.sholds(x0));
    lemma_hdr_counted_sub(o, n, true);
    assert forall|x: RouteRef<T>| #[trigger] n.any_header.holds(x) implies rheaders(*x).len() == 0 by { assert(o.any_header.holds(x)); }
}
pub proof fn lemma_hdr_removed<T>(o: HeaderMatcher<T>, n: HeaderMatcher<T>, id: Seq<char>, r: Option<RouteRef<T>>)
    requires o.wf(), removed_rel(o.any_header, n.any_header, id, None::<RouteRef<T>>), entries_removed(o.condition_groups@, n.condition_groups@, id),
        r matches Some(x) ==> rid(*x) == id && map_holds(o.condition_groups@, x), r is None ==> !map_holds_id(o.condition_groups@, id),
        n.count + (if r is Some { 1int } else { 0int }) == o.count,
    ensures removed_rel(o, n, id, r),
{
    lemma_sub_empty::<T>();
    lemma_map_removed_holds(o.condition_groups@, n.condition_groups@, id, hdr_kf::<T>());
    assert forall|y: RouteRef<T>| #![trigger n.holds(y)] #![trigger o.holds(y)] n.holds(y) <==> o.holds(y) && rid(*y) != id by {
        if o.any_header.holds(y) { assert(holds_id(o.any_header, id) || rid(*y) != id); }
    }
    if r is Some { let x = r.unwrap(); assert(o.holds(x)); assert(o.sholds(x) && !n.sholds(x)); }
    else {
        assert forall|y: RouteRef<T>| #[trigger] o.holds(y) implies rid(*y) != id by {
            if o.any_header.holds(y) { assert(holds_id(o.any_header, id) || rid(*y) != id); }
            if map_holds(o.condition_groups@, y) { let k = choose|k: BTreeSet<HeaderCondition>| o.condition_groups@.contains_key(k) && #[trigger] o.condition_groups@[k].holds(y); assert(map_holds_id(o.condition_groups@, id) || rid(*y) != id); }
        }
    }
    lemma_uniq_subset(o, n); lemma_hdr_uniq_bridge(n);
    lemma_hdr_counted_sub(o, n, r is Some);
    assert forall|x: RouteRef<T>| #[trigger] n.any_header.holds(x) implies rheaders(*x).len() == 0 by { assert(o.any_header.holds(x)); }
}
pub proof fn lemma_hdr_cached<T>(o: HeaderMatcher<T>, n: HeaderMatcher<T>)
    requires o.wf(), same_store(o.any_header, n.any_header), entries_same(o.condition_groups@, n.condition_groups@), n.count == o.count,
    ensures same_store(o, n),
{
    lemma_map_same(o.condition_groups@, n.condition_groups@, hdr_kf::<T>());
    assert forall|x: RouteRef<T>| #![trigger n.holds(x)] #![trigger o.holds(x)] n.holds(x) <==> o.holds(x) by {}
    lemma_uniq_subset(o, n); lemma_hdr_uniq_bridge(n);
    lemma_hdr_counted_sub(o, n, false);
    assert forall|x: RouteRef<T>| #[trigger] n.any_header.holds(x) implies rheaders(*x).len() == 0 by { assert(o.any_header.holds(x)); }
}
pub proof fn lemma_hdr_batched<T>(o: HeaderMatcher<T>, n: HeaderMatcher<T>, ids: Set<String>)
    requires o.wf(), batched_rel(o.any_header, n.any_header, ids), entries_batched(o.condition_groups@, n.condition_groups@, ids), n.count == o.count,
    ensures batched_rel(o, n, ids),
{
    lemma_sub_empty::<T>();
    lemma_map_batched(o.condition_groups@, n.condition_groups@, ids, hdr_kf::<T>());
    assert forall|y: RouteRef<T>| #![trigger n.holds(y)] #![trigger o.holds(y)] n.holds(y) <==> o.holds(y) && !ids_has(ids, rid(*y)) by {}
    lemma_uniq_subset(o, n); lemma_hdr_uniq_bridge(n);
    lemma_hdr_counted_sub(o, n, false);
    assert forall|x: RouteRef<T>| #[trigger] n.any_header.holds(x) implies rheaders(*x).len() == 0 by { assert(o.any_header.holds(x)); }
}

// C01 exactness of the header layer. The answer is the membership-exact contract verified for HeaderMatcher::match_request in unit rtr
// (same formula): the no-header bucket, plus every group ALL of whose conditions hold (cond_true: unit rtr's condition semantics).
pub uninterp spec fn cond_true(c: HeaderCondition, q: Request) -> bool;
pub open spec fn group_true(cs: Set<HeaderCondition>, q: Request) -> bool { forall|c: HeaderCondition| cs.contains(c) ==> #[trigger] cond_true(c, q) }
pub open spec fn header_answers<T>(m: HeaderMatcher<T>, q: Request, x: RouteRef<T>) -> bool {
    sub_answers(m.any_header, q, x) || exists|cs: BTreeSet<HeaderCondition>| m.condition_groups@.contains_key(cs) && group_true(cs@, q) && #[trigger] sub_answers(m.condition_groups@[cs], q, x)
}
// the header triggers of a rule: every trigger's denoted condition holds
pub open spec fn hdr_trigger_sat(h: RouteHeader, q: Request) -> bool { forall|c: HeaderCondition| is_cond_of(c, h) ==> #[trigger] cond_true(c, q) }
pub open spec fn header_sat<T>(x: RouteRef<T>, q: Request) -> bool { forall|i: int| 0 <= i < rheaders(*x).len() ==> hdr_trigger_sat(#[trigger] rheaders(*x)[i], q) }
pub proof fn lemma_group_sat(k: Set<HeaderCondition>, hs: Seq<RouteHeader>, q: Request)
    requires group_of(k, hs),
    ensures group_true(k, q) <==> forall|i: int| 0 <= i < hs.len() ==> hdr_trigger_sat(#[trigger] hs[i], q),
{
    if group_true(k, q) {
        assert forall|i: int| 0 <= i < hs.len() implies hdr_trigger_sat(#[trigger] hs[i], q) by {
            assert forall|c: HeaderCondition| is_cond_of(c, hs[i]) implies #[trigger] cond_true(c, q) by { assert(k.contains(c)); }
        }
    }
    if forall|i: int| 0 <= i < hs.len() ==> hdr_trigger_sat(#[trigger] hs[i], q) {
        assert forall|c: HeaderCondition| k.contains(c) implies #[trigger] cond_true(c, q) by { let i = choose|i: int| 0 <= i < hs.len() && is_cond_of(c, #[trigger] hs[i]); assert(hdr_trigger_sat(hs[i], q)); }
    }
}
pub proof fn lemma_header_exact<T>(m: HeaderMatcher<T>, q: Request)
    requires m.wf(),
    ensures forall|x: RouteRef<T>| #[trigger] header_answers(m, q, x) <==> m.holds(x) && header_sat(x, q) && sat_below(x, q),
{
    lemma_sub_exact(m.any_header, q);
    let kf = hdr_kf::<T>();
    assert forall|x: RouteRef<T>| #[trigger] header_answers(m, q, x) <==> m.holds(x) && header_sat(x, q) && sat_below(x, q) by {
        if sub_answers(m.any_header, q, x) { assert(m.any_header.holds(x)); assert(rheaders(*x).len() == 0); }
        if exists|cs: BTreeSet<HeaderCondition>| m.condition_groups@.contains_key(cs) && group_true(cs@, q) && #[trigger] sub_answers(m.condition_groups@[cs], q, x) {
            let cs = choose|cs: BTreeSet<HeaderCondition>| m.condition_groups@.contains_key(cs) && group_true(cs@, q) && #[trigger] sub_answers(m.condition_groups@[cs], q, x);
            lemma_sub_exact(m.condition_groups@[cs], q); assert(m.condition_groups@[cs].holds(x)); assert(map_holds(m.condition_groups@, x)); assert(kf(cs, x));
            lemma_group_sat(cs@, rheaders(*x), q);
        }
        if m.holds(x) && header_sat(x, q) && sat_below(x, q) {
            if m.any_header.holds(x) { assert(sub_answers(m.any_header, q, x)); }
            else { let cs = choose|cs: BTreeSet<HeaderCondition>| m.condition_groups@.contains_key(cs) && #[trigger] m.condition_groups@[cs].holds(x); assert(kf(cs, x));
                lemma_group_sat(cs@, rheaders(*x), q); lemma_sub_exact(m.condition_groups@[cs], q); assert(sub_answers(m.condition_groups@[cs], q, x)); }
        }
    }
}
impl<T> HeaderMatcher<T> {
    //@@ fn src/router/request_matcher/header.rs :: impl <T>HeaderMatcher<T> / fn new -> r
    //@| ensures r.wf(), r.cnt() == 0, forall|x: RouteRef<T>| !r.holds(x),
    //@| entry broadcast use vstd::std_specs::btree::group_btree_axioms; broadcast use axiom_hc_key; broadcast use axiom_hcset_key;
    //@| exit proof { let w = Set::<RouteRef<T>>::empty(); assert(w.len() <= vf_ret.count && forall|x: RouteRef<T>| w.contains(x) <==> vf_ret.sholds(x)); }

    //@@ fn src/router/request_matcher/header.rs :: impl <T>HeaderMatcher<T> / fn insert
    //@| requires old(self).wf(), old(self).cnt() < usize::MAX, forall|x: RouteRef<T>| old(self).holds(x) ==> rid(*x) != rid(*route),
    //@|     old(self).any_header.cnt() < usize::MAX, forall|k: BTreeSet<HeaderCondition>| old(self).condition_groups@.contains_key(k) ==> (#[trigger] old(self).condition_groups@[k]).cnt() < usize::MAX,
    //@| ensures inserted_rel(*old(self), *final(self), route),
    //@| attr #[verifier::loop_isolation(false)]
    //@| outline `condition_group.clone()` => `outl_hcset_clone(&condition_group)`
    //@| entry broadcast use vstd::std_specs::btree::group_btree_axioms; broadcast use axiom_hc_key; broadcast use axiom_hcset_key; broadcast use axiom_arc_cloned;
    //@|     let ghost m0 = self.condition_groups@; let ghost rt = route; let ghost kf = hdr_kf::<T>(); let ghost hs = rheaders_of(rt);
    //@|     proof { axiom_string_ext(); axiom_hcset_ext(); }
    //@| before `return;`: proof {
    //@|     assert forall|x: RouteRef<T>| #![trigger self.sholds(x)] self.sholds(x) <==> old(self).sholds(x) || x == rt by {}
    //@|     assert forall|x: RouteRef<T>| #[trigger] self.any_header.holds(x) implies rheaders(*x).len() == 0 by { if x != rt { assert(old(self).any_header.holds(x)); } }
    //@|     lemma_hdr_inserted(*old(self), *self, rt);
    //@| }
    //@| forlabel 0: it
    //@| loop 0: invariant iter_ref_ok(it.history@, it.index@, it.snapshot@.remaining(), hs), route == rt, hs == rheaders(*rt),
    //@|     self.any_header == old(self).any_header, self.condition_groups@ == m0, self.count == old(self).count + 1,
    //@|     group_of(condition_group@, hs.take(it.index@)),
    //@| loophead 0: let ghost k = it.index@ as int; let ghost g0 = condition_group@; proof { assert(*header == hs[k]); }
    //@| looptail 0: proof {
    //@|     let c = header_condition;
    //@|     assert(is_cond_of(c, hs[k]));
    //@|     assert forall|d: HeaderCondition| #[trigger] condition_group@.contains(d) <==> exists|i: int| 0 <= i < k + 1 && is_cond_of(d, #[trigger] hs.take(k + 1)[i]) by {
    //@|         if condition_group@.contains(d) && d != c { assert(g0.contains(d)); let i = choose|i: int| 0 <= i < k && is_cond_of(d, #[trigger] hs.take(k)[i]); assert(hs.take(k + 1)[i] == hs.take(k)[i]); }
    //@|         if d == c { assert(hs.take(k + 1)[k] == hs[k]); }
    //@|         if exists|i: int| 0 <= i < k + 1 && is_cond_of(d, #[trigger] hs.take(k + 1)[i]) { let i = choose|i: int| 0 <= i < k + 1 && is_cond_of(d, #[trigger] hs.take(k + 1)[i]);
    //@|             if i < k { assert(hs.take(k)[i] == hs.take(k + 1)[i]); assert(g0.contains(d)); } else { lemma_cond_unique(d, c, hs[k]); } }
    //@|     }
    //@| }
    //@| before `let matcher = self.condition_groups.get_mut(&condition_group).unwrap();`: let ghost m1 = self.condition_groups@; let ghost key = condition_group;
    //@|     proof {
    //@|         assert(hs.take(hs.len() as int) =~= hs);
    //@|         assert(kf(key, rt));
    //@|         assert(m1.contains_key(key) && m1[key].wf()); lemma_sub_wf(m1[key]);
    //@|         if m0.contains_key(key) { assert(m1 == m0); assert forall|x: RouteRef<T>| m1[key].holds(x) implies rid(*x) != rid(*route) by { assert(map_holds(m0, x)); assert(old(self).sholds(x)); assert(old(self).holds(x)); } }
    //@|         else { assert(m1 == m0.insert(key, m1[key])); }
    //@|     }
    //@| exit proof {
    //@|     assert(self.condition_groups@ =~= m0.insert(key, self.condition_groups@[key]));
    //@|     lemma_map_inserted(m0, self.condition_groups@, key, rt, kf);
    //@|     assert forall|x: RouteRef<T>| #![trigger self.sholds(x)] self.sholds(x) <==> old(self).sholds(x) || x == rt by {}
    //@|     assert forall|x: RouteRef<T>| #[trigger] self.any_header.holds(x) implies rheaders(*x).len() == 0 by { assert(old(self).any_header.holds(x)); }
    //@|     lemma_hdr_inserted(*old(self), *self, rt);
    //@| }

    //@@ fn src/router/request_matcher/header.rs :: impl <T>HeaderMatcher<T> / fn remove -> r
    //@| requires old(self).wf(),
    //@| ensures removed_rel(*old(self), *final(self), id@, r),
    //@| statelift `self.condition_groups.retain(|_, matcher|` var `removed` helper `vf_retain_st_bt` header `|_k: &BTreeSet<HeaderCondition>, matcher: &mut Sub<T>, vf_st: &mut Option<RouteRef<T>>| -> (b: bool) requires old(matcher).wf() ensures ((*old(vf_st)) is Some && *final(matcher) == *old(matcher) && *final(vf_st) == *old(vf_st) && b) || (exists|r: Option<RouteRef<T>>| #[trigger] removed_rel(*old(matcher), *final(matcher), id@, r) && *final(vf_st) == (if r is Some { r } else { *old(vf_st) }) && (!b ==> final(matcher).cnt() == 0))` ghost `Ghost(post_rm_t::<BTreeSet<HeaderCondition>, T, Sub<T>>(id@))`
    //@| before `self.condition_groups.retain(`: let ghost vf_m0 = self.condition_groups@; let ghost vf_r0 = removed;
    //@| after `!matcher.is_empty() });`#0: proof { lemma_hdr_map_uniq(*old(self)); lemma_chain_removed_t(vf_m0, self.condition_groups@, vf_r0, removed, id@); }
    //@| entry broadcast use vstd::std_specs::btree::group_btree_axioms; broadcast use axiom_hc_key; broadcast use axiom_hcset_key;
    //@|     proof { lemma_hdr_wf(*self); }
    //@| before `self.count -= 1;`#0: proof { assert(old(self).any_header.holds(removed.unwrap())); assert(old(self).sholds(removed.unwrap())); assert(old(self).holds(removed.unwrap())); }
    //@| before `return removed;`: proof { lemma_hdr_removed_any(*old(self), *self, id@, removed.unwrap()); }
    //@| after `!matcher.is_empty() });`#0: proof { if removed is Some { assert(old(self).sholds(removed.unwrap())); assert(old(self).holds(removed.unwrap())); } }
    //@| exit proof { lemma_hdr_removed(*old(self), *self, id@, removed); }

    //@@ fn src/router/request_matcher/header.rs :: impl <T>HeaderMatcher<T> / fn batch_remove -> r
    //@| requires old(self).wf(),
    //@| ensures batched_rel(*old(self), *final(self), ids@),
    //@| closure `|_, matcher|` => `|_k: &BTreeSet<HeaderCondition>, matcher: &mut Sub<T>| -> (b: bool) requires old(matcher).wf() ensures batched_rel(*old(matcher), *final(matcher), ids@), !b ==> final(matcher).cnt() == 0`
    //@| entry broadcast use vstd::std_specs::btree::group_btree_axioms; broadcast use axiom_hc_key; broadcast use axiom_hcset_key;
    //@| exit proof { lemma_hdr_batched(*old(self), *self, ids@); }

    // C12 / C02 (header layer): warming the cache keeps the invariant and the stored set; budget never grows
    //@@ fn src/router/request_matcher/header.rs :: impl <T>HeaderMatcher<T> / fn cache -> r
    //@| requires old(self).wf(),
    //@| ensures same_store(*old(self), *final(self)), r <= limit, final(self).conditions == old(self).conditions,
    //@| forlift `for matcher in self.condition_groups.values_mut() {` var `new_limit` helper `vf_bvalues_mut_st` header `|matcher: &mut Sub<T>, vf_st: &mut u64| requires old(matcher).wf() ensures same_store(*old(matcher), *final(matcher)), *final(vf_st) <= *old(vf_st)` ghost `Ghost(post_cache::<T, Sub<T>>())`
    //@| entry broadcast use vstd::std_specs::btree::group_btree_axioms; broadcast use axiom_hc_key; broadcast use axiom_hcset_key;
    //@| before `for matcher in self.condition_groups.values_mut() {`: let ghost vf_m0 = self.condition_groups@; let ghost vf_l0 = new_limit;
    //@| exit proof { lemma_vchain_cached::<BTreeSet<HeaderCondition>, T, Sub<T>>(vf_m0, self.condition_groups@, vf_l0, new_limit); lemma_hdr_cached(*old(self), *self); }

    //@@ fn src/router/request_matcher/header.rs :: impl <T>HeaderMatcher<T> / fn len -> r
    //@| ensures r == self.cnt(),
    //@@ fn src/router/request_matcher/header.rs :: impl <T>HeaderMatcher<T> / fn is_empty -> r
    //@| ensures r == (self.cnt() == 0),
}
//@@ unrename DateTimeMatcher
// a header trigger denotes exactly one condition
pub proof fn lemma_cond_unique(a: HeaderCondition, b: HeaderCondition, h: RouteHeader)
    requires is_cond_of(a, h), is_cond_of(b, h),
    ensures a == b,
{ axiom_string_ext(); }

// ================================================================ date-time layer (one bucket per SET of date/time conditions)
// SHIMS: the trigger value types are opaque here (unit rtr verifies their predicates)
#[verifier::external_body] pub struct RouteDateTime { x: u8 }
#[verifier::external_body] pub struct RouteTime { x: u8 }
#[verifier::external_body] pub struct RouteWeekday { x: u8 }
//@@ item src/router/request_matcher/datetime.rs :: enum DateTimeCondition
impl PartialEq for DateTimeCondition { #[verifier::external_body] fn eq(&self, o: &Self) -> bool { unimplemented!() } }
impl Eq for DateTimeCondition {}
impl PartialOrd for DateTimeCondition { #[verifier::external_body] fn partial_cmp(&self, o: &Self) -> Option<std::cmp::Ordering> { unimplemented!() } }
impl Ord for DateTimeCondition { #[verifier::external_body] fn cmp(&self, o: &Self) -> std::cmp::Ordering { unimplemented!() } }
// ASSUMED (trusted, listed): derived Clone yields an equal value; derived Ord is a total order consistent with Eq (key model)
impl Clone for DateTimeCondition { #[verifier::external_body] fn clone(&self) -> (r: Self) ensures r == *self { unimplemented!() } }
#[verifier::external_body] pub broadcast proof fn axiom_dtc_key() ensures #[trigger] vstd::std_specs::btree::key_obeys_cmp_spec::<DateTimeCondition>() {}
#[verifier::external_body] pub broadcast proof fn axiom_dtcset_key() ensures #[trigger] vstd::std_specs::btree::key_obeys_cmp_spec::<BTreeSet<DateTimeCondition>>() {}
#[verifier::external_body] pub fn outl_dtset_clone(s: &BTreeSet<DateTimeCondition>) -> (r: BTreeSet<DateTimeCondition>) ensures r == *s { /* verbatim: condition_group.clone() */ s.clone() }
#[verifier::external_body] pub fn outl_vec_rdt_clone(v: &Vec<RouteDateTime>) -> (r: Vec<RouteDateTime>) ensures r == *v { /* verbatim: route_datetime.clone() */ unimplemented!() }
#[verifier::external_body] pub fn outl_vec_rt_clone(v: &Vec<RouteTime>) -> (r: Vec<RouteTime>) ensures r == *v { /* verbatim: route_time.clone() */ unimplemented!() }
#[verifier::external_body] pub fn outl_rw_clone(v: &RouteWeekday) -> (r: RouteWeekday) ensures r == *v { /* verbatim: route_weekdays.clone() */ unimplemented!() }
pub uninterp spec fn rdatetime<T>(r: Route<T>) -> Option<Vec<RouteDateTime>>;
pub uninterp spec fn rtime<T>(r: Route<T>) -> Option<Vec<RouteTime>>;
pub uninterp spec fn rweekdays<T>(r: Route<T>) -> Option<RouteWeekday>;
pub open spec fn oref<V>(o: Option<&V>) -> Option<V> { match o { Some(v) => Some(*v), None => None } }
impl<T> Route<T> {
    #[verifier::external_body] pub fn datetime(&self) -> (r: Option<&Vec<RouteDateTime>>) ensures oref(r) == rdatetime(*self) { unimplemented!() }
    #[verifier::external_body] pub fn time(&self) -> (r: Option<&Vec<RouteTime>>) ensures oref(r) == rtime(*self) { unimplemented!() }
    #[verifier::external_body] pub fn weekdays(&self) -> (r: Option<&RouteWeekday>) ensures oref(r) == rweekdays(*self) { unimplemented!() }
}
// statement of C01 for the date/time triggers: the bucket key of a route is exactly the set of its date-time, weekday and time conditions
pub open spec fn dt_group_of<T>(k: Set<DateTimeCondition>, x: RouteRef<T>) -> bool {
    forall|c: DateTimeCondition| #[trigger] k.contains(c) <==>
        (rdatetime(*x) matches Some(v) && c == DateTimeCondition::DateTimeRange(v)) || (rweekdays(*x) matches Some(w) && c == DateTimeCondition::Weekdays(w)) || (rtime(*x) matches Some(v) && c == DateTimeCondition::TimeRange(v))
}
pub open spec fn dt_none<T>(x: RouteRef<T>) -> bool { rdatetime(*x) is None && rweekdays(*x) is None && rtime(*x) is None }
pub open spec fn dt_kf<T>() -> spec_fn(BTreeSet<DateTimeCondition>, RouteRef<T>) -> bool { |k: BTreeSet<DateTimeCondition>, x: RouteRef<T>| !dt_none(x) && dt_group_of(k@, x) }
//@@ rename PathAndQueryMatcher Sub
//@@ item src/router/request_matcher/datetime.rs :: struct DateTimeMatcher
impl<T> DateTimeMatcher<T> {
    pub open spec fn sholds(&self, x: RouteRef<T>) -> bool { self.any_datetime.holds(x) || map_holds(self.condition_groups@, x) }
    pub open spec fn counted(&self) -> bool { exists|s: Set<RouteRef<T>>| #[trigger] s.len() <= self.count && forall|x: RouteRef<T>| s.contains(x) <==> self.sholds(x) }
    pub open spec fn swf(&self) -> bool {
        &&& self.any_datetime.wf() && map_wf(self.condition_groups@)
        &&& self.counted()
        &&& forall|x: RouteRef<T>, y: RouteRef<T>| #[trigger] self.sholds(x) && #[trigger] self.sholds(y) && rid(*x) == rid(*y) ==> x == y
        &&& map_keyed(self.condition_groups@, dt_kf::<T>())
        &&& forall|x: RouteRef<T>| #[trigger] self.any_datetime.holds(x) ==> dt_none(x)
    }
}
impl<T> Store<T> for DateTimeMatcher<T> {
    open spec fn holds(&self, x: RouteRef<T>) -> bool { self.sholds(x) }
    open spec fn cnt(&self) -> nat { self.count as nat }
    open spec fn wf(&self) -> bool { self.swf() }
}
pub proof fn lemma_dt_uniq_bridge<T>(n: DateTimeMatcher<T>)
    requires uniq(n),
    ensures forall|x: RouteRef<T>, y: RouteRef<T>| #[trigger] n.sholds(x) && #[trigger] n.sholds(y) && rid(*x) == rid(*y) ==> x == y,
{
    assert forall|x: RouteRef<T>, y: RouteRef<T>| #[trigger] n.sholds(x) && #[trigger] n.sholds(y) && rid(*x) == rid(*y) implies x == y by { assert(n.holds(x) && n.holds(y)); }
}
pub proof fn lemma_dt_map_uniq<T>(s: DateTimeMatcher<T>)
    requires s.wf(),
    ensures map_uniq(s.condition_groups@),
{
    axiom_btreeset_ext::<DateTimeCondition>();
    let m = s.condition_groups@; let kf = dt_kf::<T>();
    assert forall|k1: BTreeSet<DateTimeCondition>, k2: BTreeSet<DateTimeCondition>, x: RouteRef<T>, y: RouteRef<T>| m.contains_key(k1) && m.contains_key(k2) && #[trigger] m[k1].holds(x) && #[trigger] m[k2].holds(y) && rid(*x) == rid(*y) implies x == y && k1 == k2 by {
        assert(map_holds(m, x) && map_holds(m, y)); assert(s.sholds(x) && s.sholds(y)); assert(x == y);
        assert(kf(k1, x) && kf(k2, y));
        assert(k1@ =~= k2@);
    }
}
pub proof fn lemma_dt_wf<T>(s: DateTimeMatcher<T>)
    requires s.wf(),
    ensures uniq(s), s.cnt() == 0 ==> forall|x: RouteRef<T>| !s.holds(x), s.cnt() <= usize::MAX,
{
    let w = choose|w: Set<RouteRef<T>>| #[trigger] w.len() <= s.count && forall|x: RouteRef<T>| w.contains(x) <==> s.sholds(x);
    if s.count == 0 { assert forall|x: RouteRef<T>| !s.holds(x) by { if s.sholds(x) { assert(w.contains(x)); assert(w.len() > 0) by { if w.len() == 0 { assert(w =~= Set::<RouteRef<T>>::empty()); } } } } }
}
pub proof fn lemma_dt_counted_insert<T>(o: DateTimeMatcher<T>, n: DateTimeMatcher<T>, rt: RouteRef<T>)
    requires o.counted(), n.count == o.count + 1, forall|x: RouteRef<T>| #![trigger n.sholds(x)] n.sholds(x) <==> o.sholds(x) || x == rt,
    ensures n.counted(),
{
    let w = choose|w: Set<RouteRef<T>>| #[trigger] w.len() <= o.count && forall|x: RouteRef<T>| w.contains(x) <==> o.sholds(x);
    let w2 = w.insert(rt);
    assert(w2.len() <= n.count && forall|x: RouteRef<T>| w2.contains(x) <==> n.sholds(x));
}
pub proof fn lemma_dt_counted_sub<T>(o: DateTimeMatcher<T>, n: DateTimeMatcher<T>, dec: bool)
    requires o.counted(), forall|x: RouteRef<T>| #[trigger] n.sholds(x) ==> o.sholds(x),
        !dec ==> n.count == o.count,
        dec ==> n.count + 1 == o.count && exists|x0: RouteRef<T>| o.sholds(x0) && !n.sholds(x0),
    ensures n.counted(),
{
    let w = choose|w: Set<RouteRef<T>>| #[trigger] w.len() <= o.count && forall|x: RouteRef<T>| w.contains(x) <==> o.sholds(x);
    let w2 = w.filter(|x: RouteRef<T>| n.sholds(x));
    w.lemma_len_filter(|x: RouteRef<T>| n.sholds(x));
    assert forall|x: RouteRef<T>| w2.contains(x) <==> n.sholds(x) by {}
    if dec {
        let x0 = choose|x0: RouteRef<T>| o.sholds(x0) && !n.sholds(x0);
        assert(w.contains(x0) && !w2.contains(x0));
        assert(w2.subset_of(w.remove(x0)));
        vstd::set_lib::lemma_len_subset(w2, w.remove(x0));
    }
    assert(w2.len() <= n.count);
}

pub proof fn lemma_dt_inserted<T>(o: DateTimeMatcher<T>, n: DateTimeMatcher<T>, rt: RouteRef<T>)
    requires o.wf(), forall|x: RouteRef<T>| o.holds(x) ==> rid(*x) != rid(*rt), n.count == o.count + 1,
        n.any_datetime.wf(), map_wf(n.condition_groups@), map_keyed(n.condition_groups@, dt_kf::<T>()),
        forall|x: RouteRef<T>| #![trigger n.sholds(x)] n.sholds(x) <==> o.sholds(x) || x == rt,
        forall|x: RouteRef<T>| #[trigger] n.any_datetime.holds(x) ==> dt_none(x),
    ensures inserted_rel(o, n, rt),
{
    lemma_dt_counted_insert(o, n, rt);
    assert forall|x: RouteRef<T>| #![trigger n.holds(x)] #![trigger o.holds(x)] n.holds(x) <==> o.holds(x) || x == rt by {}
    lemma_uniq_inserted(o, n, rt); lemma_dt_uniq_bridge(n);
}
pub proof fn lemma_dt_removed_any<T>(o: DateTimeMatcher<T>, n: DateTimeMatcher<T>, id: Seq<char>, x0: RouteRef<T>)
    requires o.wf(), n.condition_groups@ == o.condition_groups@, removed_rel(o.any_datetime, n.any_datetime, id, Some(x0)), n.count + 1 == o.count,
    ensures removed_rel(o, n, id, Some(x0)),
{
    assert(o.holds(x0));
    assert forall|y: RouteRef<T>| #![trigger n.holds(y)] #![trigger o.holds(y)] n.holds(y) <==> o.holds(y) && rid(*y) != id by { if o.holds(y) && rid(*y) == id { assert(y == x0); } }
    lemma_uniq_subset(o, n); lemma_dt_uniq_bridge(n);
    assert(o.sholds(x0) && !n.sholds(x0));
    lemma_dt_counted_sub(o, n, true);
    assert forall|x: RouteRef<T>| #[trigger] n.any_datetime.holds(x) implies dt_none(x) by { assert(o.any_datetime.holds(x)); }
}
pub proof fn lemma_dt_removed<T>(o: DateTimeMatcher<T>, n: DateTimeMatcher<T>, id: Seq<char>, r: Option<RouteRef<T>>)
    requires o.wf(), removed_rel(o.any_datetime, n.any_datetime, id, None::<RouteRef<T>>), entries_removed(o.condition_groups@, n.condition_groups@, id),
        r matches Some(x) ==> rid(*x) == id && map_holds(o.condition_groups@, x), r is None ==> !map_holds_id(o.condition_groups@, id),
        n.count + (if r is Some { 1int } else { 0int }) == o.count,
    ensures removed_rel(o, n, id, r),
{
    lemma_sub_empty::<T>();
    lemma_map_removed_holds(o.condition_groups@, n.condition_groups@, id, dt_kf::<T>());
    assert forall|y: RouteRef<T>| #![trigger n.holds(y)] #![trigger o.holds(y)] n.holds(y) <==> o.holds(y) && rid(*y) != id by {
        if o.any_datetime.holds(y) { assert(holds_id(o.any_datetime, id) || rid(*y) != id); }
    }
    if r is Some { let x = r.unwrap(); assert(o.holds(x)); assert(o.sholds(x) && !n.sholds(x)); }
    else {
        assert forall|y: RouteRef<T>| #[trigger] o.holds(y) implies rid(*y) != id by {
            if o.any_datetime.holds(y) { assert(holds_id(o.any_datetime, id) || rid(*y) != id); }
            if map_holds(o.condition_groups@, y) { let k = choose|k: BTreeSet<DateTimeCondition>| o.condition_groups@.contains_key(k) && #[trigger] o.condition_groups@[k].holds(y); assert(map_holds_id(o.condition_groups@, id) || rid(*y) != id); }
        }
    }
    lemma_uniq_subset(o, n); lemma_dt_uniq_bridge(n);
    lemma_dt_counted_sub(o, n, r is Some);
    assert forall|x: RouteRef<T>| #[trigger] n.any_datetime.holds(x) implies dt_none(x) by { assert(o.any_datetime.holds(x)); }
}
pub proof fn lemma_dt_cached<T>(o: DateTimeMatcher<T>, n: DateTimeMatcher<T>)
    requires o.wf(), same_store(o.any_datetime, n.any_datetime), entries_same(o.condition_groups@, n.condition_groups@), n.count == o.count,
    ensures same_store(o, n),
{
    lemma_map_same(o.condition_groups@, n.condition_groups@, dt_kf::<T>());
    assert forall|x: RouteRef<T>| #![trigger n.holds(x)] #![trigger o.holds(x)] n.holds(x) <==> o.holds(x) by {}
    lemma_uniq_subset(o, n); lemma_dt_uniq_bridge(n);
    lemma_dt_counted_sub(o, n, false);
    assert forall|x: RouteRef<T>| #[trigger] n.any_datetime.holds(x) implies dt_none(x) by { assert(o.any_datetime.holds(x)); }
}
pub proof fn lemma_dt_batched<T>(o: DateTimeMatcher<T>, n: DateTimeMatcher<T>, ids: Set<String>)
    requires o.wf(), batched_rel(o.any_datetime, n.any_datetime, ids), entries_batched(o.condition_groups@, n.condition_groups@, ids), n.count == o.count,
    ensures batched_rel(o, n, ids),
{
    lemma_sub_empty::<T>();
    lemma_map_batched(o.condition_groups@, n.condition_groups@, ids, dt_kf::<T>());
    assert forall|y: RouteRef<T>| #![trigger n.holds(y)] #![trigger o.holds(y)] n.holds(y) <==> o.holds(y) && !ids_has(ids, rid(*y)) by {}
    lemma_uniq_subset(o, n); lemma_dt_uniq_bridge(n);
    lemma_dt_counted_sub(o, n, false);
    assert forall|x: RouteRef<T>| #[trigger] n.any_datetime.holds(x) implies dt_none(x) by { assert(o.any_datetime.holds(x)); }
}


// C01 exactness of the date-time layer (same shape; dt_cond_true: unit rtr's semantics of a date-time / time / weekday condition)
pub uninterp spec fn dt_cond_true(c: DateTimeCondition, q: Request) -> bool;
pub open spec fn dt_group_true(cs: Set<DateTimeCondition>, q: Request) -> bool { forall|c: DateTimeCondition| cs.contains(c) ==> #[trigger] dt_cond_true(c, q) }
pub open spec fn datetime_answers<T>(m: DateTimeMatcher<T>, q: Request, x: RouteRef<T>) -> bool {
    sub_answers(m.any_datetime, q, x) || exists|cs: BTreeSet<DateTimeCondition>| m.condition_groups@.contains_key(cs) && dt_group_true(cs@, q) && #[trigger] sub_answers(m.condition_groups@[cs], q, x)
}
// the date/time triggers of a rule: each of its date-time, weekday and time windows holds
pub open spec fn datetime_sat<T>(x: RouteRef<T>, q: Request) -> bool {
    &&& rdatetime(*x) matches Some(v) ==> dt_cond_true(DateTimeCondition::DateTimeRange(v), q)
    &&& rweekdays(*x) matches Some(w) ==> dt_cond_true(DateTimeCondition::Weekdays(w), q)
    &&& rtime(*x) matches Some(v) ==> dt_cond_true(DateTimeCondition::TimeRange(v), q)
}
pub proof fn lemma_datetime_exact<T>(m: DateTimeMatcher<T>, q: Request)
    requires m.wf(),
    ensures forall|x: RouteRef<T>| #[trigger] datetime_answers(m, q, x) <==> m.holds(x) && datetime_sat(x, q) && sat_below(x, q),
{
    lemma_sub_exact(m.any_datetime, q);
    let kf = dt_kf::<T>();
    assert forall|x: RouteRef<T>| #[trigger] datetime_answers(m, q, x) <==> m.holds(x) && datetime_sat(x, q) && sat_below(x, q) by {
        if sub_answers(m.any_datetime, q, x) { assert(m.any_datetime.holds(x)); assert(dt_none(x)); }
        if exists|cs: BTreeSet<DateTimeCondition>| m.condition_groups@.contains_key(cs) && dt_group_true(cs@, q) && #[trigger] sub_answers(m.condition_groups@[cs], q, x) {
            let cs = choose|cs: BTreeSet<DateTimeCondition>| m.condition_groups@.contains_key(cs) && dt_group_true(cs@, q) && #[trigger] sub_answers(m.condition_groups@[cs], q, x);
            lemma_sub_exact(m.condition_groups@[cs], q); assert(m.condition_groups@[cs].holds(x)); assert(map_holds(m.condition_groups@, x)); assert(kf(cs, x));
            if rdatetime(*x) is Some { assert(cs@.contains(DateTimeCondition::DateTimeRange(rdatetime(*x).unwrap()))); }
            if rweekdays(*x) is Some { assert(cs@.contains(DateTimeCondition::Weekdays(rweekdays(*x).unwrap()))); }
            if rtime(*x) is Some { assert(cs@.contains(DateTimeCondition::TimeRange(rtime(*x).unwrap()))); }
        }
        if m.holds(x) && datetime_sat(x, q) && sat_below(x, q) {
            if m.any_datetime.holds(x) { assert(sub_answers(m.any_datetime, q, x)); }
            else { let cs = choose|cs: BTreeSet<DateTimeCondition>| m.condition_groups@.contains_key(cs) && #[trigger] m.condition_groups@[cs].holds(x); assert(kf(cs, x));
                assert(dt_group_true(cs@, q)); lemma_sub_exact(m.condition_groups@[cs], q); assert(sub_answers(m.condition_groups@[cs], q, x)); }
        }
    }
}
impl<T> DateTimeMatcher<T> {
    //@@ fn src/router/request_matcher/datetime.rs :: impl <T>DateTimeMatcher<T> / fn new -> r
    //@| ensures r.wf(), r.cnt() == 0, forall|x: RouteRef<T>| !r.holds(x),
    //@| entry broadcast use vstd::std_specs::btree::group_btree_axioms; broadcast use axiom_dtc_key; broadcast use axiom_dtcset_key;
    //@| exit proof { let w = Set::<RouteRef<T>>::empty(); assert(w.len() <= vf_ret.count && forall|x: RouteRef<T>| w.contains(x) <==> vf_ret.sholds(x)); }

    //@@ fn src/router/request_matcher/datetime.rs :: impl <T>DateTimeMatcher<T> / fn insert
    //@| requires old(self).wf(), old(self).cnt() < usize::MAX, forall|x: RouteRef<T>| old(self).holds(x) ==> rid(*x) != rid(*route),
    //@|     old(self).any_datetime.cnt() < usize::MAX, forall|k: BTreeSet<DateTimeCondition>| old(self).condition_groups@.contains_key(k) ==> (#[trigger] old(self).condition_groups@[k]).cnt() < usize::MAX,
    //@| ensures inserted_rel(*old(self), *final(self), route),
    //@| outline `condition_group.clone()` => `outl_dtset_clone(&condition_group)`
    //@| outline `route_datetime.clone()` => `outl_vec_rdt_clone(route_datetime)`
    //@| outline `route_time.clone()` => `outl_vec_rt_clone(route_time)`
    //@| outline `route_weekdays.clone()` => `outl_rw_clone(route_weekdays)`
    //@| entry broadcast use vstd::std_specs::btree::group_btree_axioms; broadcast use axiom_dtc_key; broadcast use axiom_dtcset_key; broadcast use axiom_arc_cloned;
    //@|     let ghost m0 = self.condition_groups@; let ghost rt = route; let ghost kf = dt_kf::<T>();
    //@| before `return;`: proof {
    //@|     assert(dt_none(rt)) by { if !dt_none(rt) { if rdatetime(*rt) is Some { assert(route_conditions@.contains(DateTimeCondition::DateTimeRange(rdatetime(*rt).unwrap()))); } else if rweekdays(*rt) is Some { assert(route_conditions@.contains(DateTimeCondition::Weekdays(rweekdays(*rt).unwrap()))); } else { assert(route_conditions@.contains(DateTimeCondition::TimeRange(rtime(*rt).unwrap()))); } } }
    //@|     assert forall|x: RouteRef<T>| #![trigger self.sholds(x)] self.sholds(x) <==> old(self).sholds(x) || x == rt by {}
    //@|     assert forall|x: RouteRef<T>| #[trigger] self.any_datetime.holds(x) implies dt_none(x) by { if x != rt { assert(old(self).any_datetime.holds(x)); } }
    //@|     lemma_dt_inserted(*old(self), *self, rt);
    //@| }
    //@| before `let matcher = self.condition_groups.get_mut(&condition_group).unwrap();`: let ghost m1 = self.condition_groups@; let ghost key = condition_group;
    //@|     proof {
    //@|         assert(!dt_none(rt)) by { if dt_none(rt) { assert(route_conditions@ =~= Set::<DateTimeCondition>::empty()); } }
    //@|         assert(dt_group_of(key@, rt));
    //@|         assert(kf(key, rt));
    //@|         assert(m1.contains_key(key) && m1[key].wf()); lemma_sub_wf(m1[key]);
    //@|         if m0.contains_key(key) { assert(m1 == m0); assert forall|x: RouteRef<T>| m1[key].holds(x) implies rid(*x) != rid(*route) by { assert(map_holds(m0, x)); assert(old(self).sholds(x)); assert(old(self).holds(x)); } }
    //@|         else { assert(m1 == m0.insert(key, m1[key])); }
    //@|     }
    //@| exit proof {
    //@|     assert(self.condition_groups@ =~= m0.insert(key, self.condition_groups@[key]));
    //@|     lemma_map_inserted(m0, self.condition_groups@, key, rt, kf);
    //@|     assert forall|x: RouteRef<T>| #![trigger self.sholds(x)] self.sholds(x) <==> old(self).sholds(x) || x == rt by {}
    //@|     assert forall|x: RouteRef<T>| #[trigger] self.any_datetime.holds(x) implies dt_none(x) by { assert(old(self).any_datetime.holds(x)); }
    //@|     lemma_dt_inserted(*old(self), *self, rt);
    //@| }

    //@@ fn src/router/request_matcher/datetime.rs :: impl <T>DateTimeMatcher<T> / fn remove -> r
    //@| requires old(self).wf(),
    //@| ensures removed_rel(*old(self), *final(self), id@, r),
    //@| statelift `self.condition_groups.retain(|_, matcher|` var `removed` helper `vf_retain_st_bt` header `|_k: &BTreeSet<DateTimeCondition>, matcher: &mut Sub<T>, vf_st: &mut Option<RouteRef<T>>| -> (b: bool) requires old(matcher).wf() ensures ((*old(vf_st)) is Some && *final(matcher) == *old(matcher) && *final(vf_st) == *old(vf_st) && b) || (exists|r: Option<RouteRef<T>>| #[trigger] removed_rel(*old(matcher), *final(matcher), id@, r) && *final(vf_st) == (if r is Some { r } else { *old(vf_st) }) && (!b ==> final(matcher).cnt() == 0))` ghost `Ghost(post_rm_t::<BTreeSet<DateTimeCondition>, T, Sub<T>>(id@))`
    //@| before `self.condition_groups.retain(`: let ghost vf_m0 = self.condition_groups@; let ghost vf_r0 = removed;
    //@| after `!matcher.is_empty() });`#0: proof { lemma_dt_map_uniq(*old(self)); lemma_chain_removed_t(vf_m0, self.condition_groups@, vf_r0, removed, id@); }
    //@| entry broadcast use vstd::std_specs::btree::group_btree_axioms; broadcast use axiom_dtc_key; broadcast use axiom_dtcset_key;
    //@|     proof { lemma_dt_wf(*self); }
    //@| before `self.count -= 1;`#0: proof { assert(old(self).any_datetime.holds(removed.unwrap())); assert(old(self).sholds(removed.unwrap())); assert(old(self).holds(removed.unwrap())); }
    //@| before `return removed;`: proof { lemma_dt_removed_any(*old(self), *self, id@, removed.unwrap()); }
    //@| after `!matcher.is_empty() });`#0: proof { if removed is Some { assert(old(self).sholds(removed.unwrap())); assert(old(self).holds(removed.unwrap())); } }
    //@| exit proof { lemma_dt_removed(*old(self), *self, id@, removed); }

    //@@ fn src/router/request_matcher/datetime.rs :: impl <T>DateTimeMatcher<T> / fn batch_remove -> r
    //@| requires old(self).wf(),
    //@| ensures batched_rel(*old(self), *final(self), ids@),
    //@| closure `|_, matcher|` => `|_k: &BTreeSet<DateTimeCondition>, matcher: &mut Sub<T>| -> (b: bool) requires old(matcher).wf() ensures batched_rel(*old(matcher), *final(matcher), ids@), !b ==> final(matcher).cnt() == 0`
    //@| entry broadcast use vstd::std_specs::btree::group_btree_axioms; broadcast use axiom_dtc_key; broadcast use axiom_dtcset_key;
    //@| exit proof { lemma_dt_batched(*old(self), *self, ids@); }

    // C12 / C02 (date-time layer): warming the cache keeps the invariant and the stored set; budget never grows
    //@@ fn src/router/request_matcher/datetime.rs :: impl <T>DateTimeMatcher<T> / fn cache -> r
    //@| requires old(self).wf(),
    //@| ensures same_store(*old(self), *final(self)), r <= limit, final(self).conditions == old(self).conditions,
    //@| forlift `for matcher in self.condition_groups.values_mut() {` var `new_limit` helper `vf_bvalues_mut_st` header `|matcher: &mut Sub<T>, vf_st: &mut u64| requires old(matcher).wf() ensures same_store(*old(matcher), *final(matcher)), *final(vf_st) <= *old(vf_st)` ghost `Ghost(post_cache::<T, Sub<T>>())`
    //@| entry broadcast use vstd::std_specs::btree::group_btree_axioms; broadcast use axiom_dtc_key; broadcast use axiom_dtcset_key;
    //@| before `for matcher in self.condition_groups.values_mut() {`: let ghost vf_m0 = self.condition_groups@; let ghost vf_l0 = new_limit;
    //@| exit proof { lemma_vchain_cached::<BTreeSet<DateTimeCondition>, T, Sub<T>>(vf_m0, self.condition_groups@, vf_l0, new_limit); lemma_dt_cached(*old(self), *self); }

    //@@ fn src/router/request_matcher/datetime.rs :: impl <T>DateTimeMatcher<T> / fn len -> r
    //@| ensures r == self.cnt(),
    //@@ fn src/router/request_matcher/datetime.rs :: impl <T>DateTimeMatcher<T> / fn is_empty -> r
    //@| ensures r == (self.cnt() == 0),
}
//@@ unrename PathAndQueryMatcher

// ================================================================ path-and-query layer (the leaf: stores the routes themselves)
pub enum PathKey { Static(Seq<char>), Dynamic(Seq<char>) }
pub uninterp spec fn rpath<T>(r: Route<T>) -> PathKey;
pub open spec fn rpath_of<T>(x: RouteRef<T>) -> PathKey { rpath(*x) }
pub open spec fn path_key(o: &StaticOrDynamic) -> PathKey {
    match o { StaticOrDynamic::Static(s) => PathKey::Static(s@), StaticOrDynamic::Dynamic(m) => PathKey::Dynamic(m.regex@) }
}
impl<T> Route<T> {
    #[verifier::external_body] pub fn path_and_query(&self) -> (r: &StaticOrDynamic) ensures path_key(r) == rpath(*self) { unimplemented!() }
}
// SHIM of the regex tree storing (pattern, id) -> value (unit `tree` verifies the real one against its content laws). ASSUMED contracts.
#[verifier::external_body] #[verifier::accept_recursive_types(V)] pub struct RegexTreeMap<V> { h: std::marker::PhantomData<V> }
impl<V> RegexTreeMap<V> {
    pub uninterp spec fn tmap2(&self) -> Map<(Seq<char>, Seq<char>), V>;
    #[verifier::external_body]
    pub fn new(ignore_case: bool) -> (r: Self) ensures r.tmap2() == Map::<(Seq<char>, Seq<char>), V>::empty() { unimplemented!() }
    #[verifier::external_body]
    pub fn insert(&mut self, regex: &str, id: &str, item: V) ensures final(self).tmap2() == old(self).tmap2().insert((regex@, id@), item) { unimplemented!() }
    // tree unit, rem_law: exactly one entry stored under that id (if any) disappears and is returned
    #[verifier::external_body]
    pub fn remove(&mut self, id: &str) -> (r: Option<V>)
        ensures match r {
            Some(v) => exists|p: Seq<char>| #[trigger] old(self).tmap2().contains_key((p, id@)) && old(self).tmap2()[(p, id@)] == v && final(self).tmap2() == old(self).tmap2().remove((p, id@)),
            None => final(self).tmap2() == old(self).tmap2() && forall|p: Seq<char>| !#[trigger] old(self).tmap2().contains_key((p, id@)),
        },
    { unimplemented!() }
    #[verifier::external_body]
    pub fn retain<F: Fn(&str, &mut V) -> bool>(&mut self, f: &F)
        requires forall|k: &str, v: &mut V| #[trigger] f.requires((k, v)),
        ensures
            forall|key: (Seq<char>, Seq<char>)| #[trigger] final(self).tmap2().contains_key(key) ==> old(self).tmap2().contains_key(key) && exists|k: &str, v: &mut V| k@ == key.1 && *v == old(self).tmap2()[key] && *final(v) == final(self).tmap2()[key] && #[trigger] f.ensures((k, v), true),
            forall|key: (Seq<char>, Seq<char>)| old(self).tmap2().contains_key(key) && !#[trigger] final(self).tmap2().contains_key(key) ==> exists|k: &str, v: &mut V| k@ == key.1 && *v == old(self).tmap2()[key] && #[trigger] f.ensures((k, v), false),
    { unimplemented!() }
    #[verifier::external_body]
    pub fn is_empty(&self) -> (r: bool) ensures r == (self.tmap2().len() == 0) { unimplemented!() }
    #[verifier::external_body]
    pub fn len(&self) -> (r: usize) ensures r == self.tmap2().len() { unimplemented!() }
    // warm-up of the tree's regexes: stored (pattern, id) -> value map untouched (unit `tree`: RegexTreeMap::cache ensures same_obs), budget never grows
    #[verifier::external_body]
    pub fn cache(&mut self, limit: u64, level: Option<u64>) -> (r: u64) ensures final(self).tmap2() == old(self).tmap2(), r <= limit { unimplemented!() }
}
//@@ item src/router/request_matcher/path_and_query.rs :: struct PathAndQueryMatcher
pub type IdMap<T> = HashMap<String, RouteRef<T>>;
impl<T> PathAndQueryMatcher<T> {
    pub open spec fn in_static(&self, x: RouteRef<T>) -> bool { exists|p: String, i: String| self.static_rules@.contains_key(p) && #[trigger] self.static_rules@[p]@.contains_key(i) && self.static_rules@[p]@[i] == x }
    pub open spec fn in_tree(&self, x: RouteRef<T>) -> bool { exists|key: (Seq<char>, Seq<char>)| #[trigger] self.regex_tree_rule.tmap2().contains_key(key) && self.regex_tree_rule.tmap2()[key] == x }
    pub open spec fn sholds(&self, x: RouteRef<T>) -> bool { self.in_static(x) || self.in_tree(x) }
    pub open spec fn counted(&self) -> bool { exists|s: Set<RouteRef<T>>| #[trigger] s.len() <= self.count && forall|x: RouteRef<T>| s.contains(x) <==> self.sholds(x) }
    pub open spec fn swf(&self) -> bool {
        &&& self.counted()
        &&& forall|x: RouteRef<T>, y: RouteRef<T>| #[trigger] self.sholds(x) && #[trigger] self.sholds(y) && rid(*x) == rid(*y) ==> x == y
        // a route is stored under its own id, in the bucket of its own path (static) or under its own pattern (dynamic)
        &&& forall|p: String, i: String| self.static_rules@.contains_key(p) && #[trigger] self.static_rules@[p]@.contains_key(i) ==> rid(*self.static_rules@[p]@[i]) == i@ && rpath(*self.static_rules@[p]@[i]) == PathKey::Static(p@)
        &&& forall|key: (Seq<char>, Seq<char>)| #[trigger] self.regex_tree_rule.tmap2().contains_key(key) ==> rid(*self.regex_tree_rule.tmap2()[key]) == key.1 && rpath(*self.regex_tree_rule.tmap2()[key]) == PathKey::Dynamic(key.0)
    }
}
impl<T> Store<T> for PathAndQueryMatcher<T> {
    open spec fn holds(&self, x: RouteRef<T>) -> bool { self.sholds(x) }
    open spec fn cnt(&self) -> nat { self.count as nat }
    open spec fn wf(&self) -> bool { self.swf() }
}
pub proof fn lemma_pq_uniq_bridge<T>(n: PathAndQueryMatcher<T>)
    requires uniq(n),
    ensures forall|x: RouteRef<T>, y: RouteRef<T>| #[trigger] n.sholds(x) && #[trigger] n.sholds(y) && rid(*x) == rid(*y) ==> x == y,
{
    assert forall|x: RouteRef<T>, y: RouteRef<T>| #[trigger] n.sholds(x) && #[trigger] n.sholds(y) && rid(*x) == rid(*y) implies x == y by { assert(n.holds(x) && n.holds(y)); }
}
pub proof fn lemma_pq_wf<T>(s: PathAndQueryMatcher<T>)
    requires s.wf(),
    ensures uniq(s), s.cnt() == 0 ==> forall|x: RouteRef<T>| !s.holds(x), s.cnt() <= usize::MAX,
{
    let w = choose|w: Set<RouteRef<T>>| #[trigger] w.len() <= s.count && forall|x: RouteRef<T>| w.contains(x) <==> s.sholds(x);
    if s.count == 0 { assert forall|x: RouteRef<T>| !s.holds(x) by { if s.sholds(x) { assert(w.contains(x)); assert(w.len() > 0) by { if w.len() == 0 { assert(w =~= Set::<RouteRef<T>>::empty()); } } } } }
}
pub proof fn lemma_pq_counted_insert<T>(o: PathAndQueryMatcher<T>, n: PathAndQueryMatcher<T>, rt: RouteRef<T>)
    requires o.counted(), n.count == o.count + 1, forall|x: RouteRef<T>| #![trigger n.sholds(x)] n.sholds(x) <==> o.sholds(x) || x == rt,
    ensures n.counted(),
{
    let w = choose|w: Set<RouteRef<T>>| #[trigger] w.len() <= o.count && forall|x: RouteRef<T>| w.contains(x) <==> o.sholds(x);
    let w2 = w.insert(rt);
    assert(w2.len() <= n.count && forall|x: RouteRef<T>| w2.contains(x) <==> n.sholds(x));
}
pub proof fn lemma_pq_counted_sub<T>(o: PathAndQueryMatcher<T>, n: PathAndQueryMatcher<T>, dec: bool)
    requires o.counted(), forall|x: RouteRef<T>| #[trigger] n.sholds(x) ==> o.sholds(x),
        !dec ==> n.count == o.count,
        dec ==> n.count + 1 == o.count && exists|x0: RouteRef<T>| o.sholds(x0) && !n.sholds(x0),
    ensures n.counted(),
{
    let w = choose|w: Set<RouteRef<T>>| #[trigger] w.len() <= o.count && forall|x: RouteRef<T>| w.contains(x) <==> o.sholds(x);
    let w2 = w.filter(|x: RouteRef<T>| n.sholds(x));
    w.lemma_len_filter(|x: RouteRef<T>| n.sholds(x));
    assert forall|x: RouteRef<T>| w2.contains(x) <==> n.sholds(x) by {}
    if dec {
        let x0 = choose|x0: RouteRef<T>| o.sholds(x0) && !n.sholds(x0);
        assert(w.contains(x0) && !w2.contains(x0));
        assert(w2.subset_of(w.remove(x0)));
        vstd::set_lib::lemma_len_subset(w2, w.remove(x0));
    }
    assert(w2.len() <= n.count);
}

pub proof fn lemma_pq_inserted<T>(o: PathAndQueryMatcher<T>, n: PathAndQueryMatcher<T>, rt: RouteRef<T>)
    requires o.wf(), forall|x: RouteRef<T>| o.holds(x) ==> rid(*x) != rid(*rt), n.count == o.count + 1,
        forall|x: RouteRef<T>| #![trigger n.sholds(x)] n.sholds(x) <==> o.sholds(x) || x == rt,
        forall|p: String, i: String| n.static_rules@.contains_key(p) && #[trigger] n.static_rules@[p]@.contains_key(i) ==> rid(*n.static_rules@[p]@[i]) == i@ && rpath(*n.static_rules@[p]@[i]) == PathKey::Static(p@),
        forall|key: (Seq<char>, Seq<char>)| #[trigger] n.regex_tree_rule.tmap2().contains_key(key) ==> rid(*n.regex_tree_rule.tmap2()[key]) == key.1 && rpath(*n.regex_tree_rule.tmap2()[key]) == PathKey::Dynamic(key.0),
    ensures inserted_rel(o, n, rt),
{
    lemma_pq_counted_insert(o, n, rt);
    assert forall|x: RouteRef<T>| #![trigger n.holds(x)] #![trigger o.holds(x)] n.holds(x) <==> o.holds(x) || x == rt by {}
    lemma_uniq_inserted(o, n, rt); lemma_pq_uniq_bridge(n);
}

#[verifier::external_body]
pub broadcast proof fn axiom_set_borrow_str(m: Set<String>, k: &str)
    ensures #[trigger] set_contains_borrowed_key::<String, str>(m, k) == ids_has(m, k@),
{}
pub open spec fn kept_bucket<T>(m0: Map<String, RouteRef<T>>, m1: Map<String, RouteRef<T>>, ids: Set<String>) -> bool {
    (forall|i: String| #[trigger] m1.contains_key(i) <==> m0.contains_key(i) && !ids.contains(i)) && (forall|i: String| #[trigger] m1.contains_key(i) ==> m1[i] == m0[i])
}
pub open spec fn dropped_bucket<T>(m0: Map<String, RouteRef<T>>, m1: Map<String, RouteRef<T>>, ids: Set<String>) -> bool { kept_bucket(m0, m1, ids) && m1.len() == 0 }
pub open spec fn static_has<T>(s: Map<String, IdMap<T>>, p: String, i: String, x: RouteRef<T>) -> bool { s.contains_key(p) && s[p]@.contains_key(i) && s[p]@[i] == x }
// the literal-path buckets: the removal closure is verified in place (R13). One step: once a route was found the bucket is left alone; else the
// entry with that id (if any) is taken out of the bucket and handed over; an emptied bucket is dropped
pub open spec fn has_idkey<T>(v: IdMap<T>, id: Seq<char>) -> bool { exists|i0: String| i0@ == id && v@.contains_key(i0) }
pub open spec fn post_pq<T>(id: Seq<char>) -> spec_fn(String, IdMap<T>, IdMap<T>, Option<RouteRef<T>>, Option<RouteRef<T>>, bool) -> bool {
    |k: String, v0: IdMap<T>, v1: IdMap<T>, s0: Option<RouteRef<T>>, s1: Option<RouteRef<T>>, b: bool|
        (s0 is Some && v1 == v0 && s1 == s0 && b)
        || (s0 is None && (!b ==> v1@.len() == 0) && (
                (exists|i0: String| i0@ == id && #[trigger] v0@.contains_key(i0) && v1@ == v0@.remove(i0) && s1 == Some(v0@[i0]))
                || (!has_idkey(v0, id) && v1@ == v0@ && s1 is None)))
}
pub open spec fn pq_seen<T>(m0: Map<String, IdMap<T>>, order: Seq<String>, n: int, id: Seq<char>) -> bool { exists|j: int| 0 <= j < n && has_idkey(m0[#[trigger] order[j]], id) }
// state of the scan after n steps: nothing found yet and every bucket so far untouched; or found in bucket f (the first that has the id) and
// only that bucket changed
pub open spec fn pq_inv<T>(m0: Map<String, IdMap<T>>, order: Seq<String>, states: Seq<Option<RouteRef<T>>>, vals: Seq<IdMap<T>>, keeps: Seq<bool>, id: Seq<char>, n: int) -> bool {
    if !pq_seen(m0, order, n, id) {
        states[n] is None && forall|j: int| 0 <= j < n ==> (#[trigger] vals[j])@ == m0[order[j]]@ && (!keeps[j] ==> vals[j]@.len() == 0)
    } else {
        exists|f: int, i0: String| 0 <= f < n && i0@ == id && #[trigger] m0[order[f]]@.contains_key(i0) && states[n] == Some(m0[order[f]]@[i0])
            && vals[f]@ == m0[order[f]]@.remove(i0) && (!keeps[f] ==> vals[f]@.len() == 0)
            && forall|j: int| 0 <= j < n && j != f ==> (#[trigger] vals[j])@ == m0[order[j]]@ && (keeps[j] || vals[j]@.len() == 0) && !(j < f && has_idkey(m0[order[j]], id))
    }
}
pub proof fn lemma_pq_inv<T>(m0: Map<String, IdMap<T>>, m1: Map<String, IdMap<T>>, s1: Option<RouteRef<T>>, id: Seq<char>, order: Seq<String>, states: Seq<Option<RouteRef<T>>>, vals: Seq<IdMap<T>>, keeps: Seq<bool>, n: int)
    requires chain_w(m0, m1, None, s1, post_pq::<T>(id), order, states, vals, keeps), 0 <= n <= order.len(),
    ensures pq_inv(m0, order, states, vals, keeps, id, n),
    decreases n,
{
    axiom_string_ext();
    if n > 0 {
        lemma_pq_inv(m0, m1, s1, id, order, states, vals, keeps, n - 1);
        let k = order[n - 1];
        assert(post_pq::<T>(id)(order[n - 1], m0[order[n - 1]], vals[n - 1], states[n - 1], states[n - 1 + 1], keeps[n - 1]));
        if !pq_seen(m0, order, n - 1, id) {
            assert(states[n - 1] is None);
            if has_idkey(m0[k], id) {
                let i0 = choose|i0: String| i0@ == id && #[trigger] m0[k]@.contains_key(i0) && vals[n - 1]@ == m0[k]@.remove(i0) && states[n] == Some(m0[k]@[i0]);
                assert(pq_seen(m0, order, n, id)) by { assert(has_idkey(m0[order[n - 1]], id)); }
                assert(0 <= n - 1 < n && i0@ == id && m0[order[n - 1]]@.contains_key(i0) && states[n] == Some(m0[order[n - 1]]@[i0]) && vals[n - 1]@ == m0[order[n - 1]]@.remove(i0));
                assert forall|j: int| 0 <= j < n && j != n - 1 implies (#[trigger] vals[j])@ == m0[order[j]]@ && (keeps[j] || vals[j]@.len() == 0) && !(j < n - 1 && has_idkey(m0[order[j]], id)) by {
                    if has_idkey(m0[order[j]], id) { assert(pq_seen(m0, order, n - 1, id)); }
                }
            } else {
                assert(!pq_seen(m0, order, n, id)) by { if pq_seen(m0, order, n, id) { let j = choose|j: int| 0 <= j < n && has_idkey(m0[#[trigger] order[j]], id); if j < n - 1 { assert(pq_seen(m0, order, n - 1, id)); } } }
                assert forall|j: int| 0 <= j < n implies (#[trigger] vals[j])@ == m0[order[j]]@ && (!keeps[j] ==> vals[j]@.len() == 0) by {}
            }
        } else {
            let (f, i0) = choose|f: int, i0: String| 0 <= f < n - 1 && i0@ == id && #[trigger] m0[order[f]]@.contains_key(i0) && states[n - 1] == Some(m0[order[f]]@[i0])
                && vals[f]@ == m0[order[f]]@.remove(i0) && (!keeps[f] ==> vals[f]@.len() == 0)
                && forall|j: int| 0 <= j < n - 1 && j != f ==> (#[trigger] vals[j])@ == m0[order[j]]@ && (keeps[j] || vals[j]@.len() == 0) && !(j < f && has_idkey(m0[order[j]], id));
            assert(states[n - 1] is Some);
            assert(vals[n - 1] == m0[k] && states[n] == states[n - 1] && keeps[n - 1]);
            assert(pq_seen(m0, order, n, id)) by { let j = choose|j: int| 0 <= j < n - 1 && has_idkey(m0[#[trigger] order[j]], id); assert(0 <= j < n && has_idkey(m0[order[j]], id)); }
            assert(0 <= f < n && i0@ == id && m0[order[f]]@.contains_key(i0) && states[n] == Some(m0[order[f]]@[i0]) && vals[f]@ == m0[order[f]]@.remove(i0) && (!keeps[f] ==> vals[f]@.len() == 0));
            assert forall|j: int| 0 <= j < n && j != f implies (#[trigger] vals[j])@ == m0[order[j]]@ && (keeps[j] || vals[j]@.len() == 0) && !(j < f && has_idkey(m0[order[j]], id)) by {}
        }
    } else {
        assert(!pq_seen(m0, order, 0, id));
    }
}
// the summary the layer proof uses (formerly the ASSUMED contract of the outlined statement; now derived from the verified closure)
pub open spec fn pq_some_goal<T>(m0: Map<String, IdMap<T>>, m1: Map<String, IdMap<T>>, id: Seq<char>, x: RouteRef<T>) -> bool {
    exists|p0: String, i0: String| i0@ == id && #[trigger] static_has(m0, p0, i0, x)
        && forall|p: String, i: String, y: RouteRef<T>| #[trigger] static_has(m1, p, i, y) <==> static_has(m0, p, i, y) && !(p == p0 && i == i0)
}
pub open spec fn pq_none_goal<T>(m0: Map<String, IdMap<T>>, m1: Map<String, IdMap<T>>, id: Seq<char>) -> bool {
    (forall|p: String, i: String, y: RouteRef<T>| #[trigger] static_has(m1, p, i, y) <==> static_has(m0, p, i, y))
        && forall|p: String, i: String| m0.contains_key(p) && #[trigger] m0[p]@.contains_key(i) ==> i@ != id
}
pub proof fn lemma_chain_pq<T>(m0: Map<String, IdMap<T>>, m1: Map<String, IdMap<T>>, s1: Option<RouteRef<T>>, id: Seq<char>)
    requires chain(m0, m1, None, s1, post_pq::<T>(id)),
    ensures s1 matches Some(x) ==> pq_some_goal(m0, m1, id, x), s1 is None ==> pq_none_goal(m0, m1, id),
{
    axiom_string_ext();
    let post = post_pq::<T>(id);
    let (order, states, vals, keeps) = choose|order: Seq<String>, states: Seq<Option<RouteRef<T>>>, vals: Seq<IdMap<T>>, keeps: Seq<bool>| chain_w(m0, m1, None, s1, post, order, states, vals, keeps);
    let n = order.len() as int;
    lemma_pq_inv(m0, m1, s1, id, order, states, vals, keeps, n);
    assert(states[n] == s1);
    assert forall|p: String| #[trigger] m1.contains_key(p) implies m0.contains_key(p) by {}
    // index of a key in the visiting order
    assert forall|p: String| m0.contains_key(p) implies exists|j: int| 0 <= j < n && #[trigger] order[j] == p by { assert(order.contains(p)); }
    let goal_none = (forall|p: String, i: String, y: RouteRef<T>| #[trigger] static_has(m1, p, i, y) <==> static_has(m0, p, i, y)) && (forall|p: String, i: String| m0.contains_key(p) && #[trigger] m0[p]@.contains_key(i) ==> i@ != id);
    if !pq_seen(m0, order, n, id) {
        assert(s1 is None);
        assert forall|p: String, i: String| m0.contains_key(p) && #[trigger] m0[p]@.contains_key(i) implies i@ != id by {
            let j = choose|j: int| 0 <= j < n && #[trigger] order[j] == p; if i@ == id { assert(has_idkey(m0[order[j]], id)); assert(pq_seen(m0, order, n, id)); }
        }
        assert forall|p: String, i: String, y: RouteRef<T>| #[trigger] static_has(m1, p, i, y) <==> static_has(m0, p, i, y) by {
            if !m0.contains_key(p) { assert(!m1.contains_key(p)); }
            if m0.contains_key(p) {
                let j = choose|j: int| 0 <= j < n && #[trigger] order[j] == p;
                assert(vals[j]@ == m0[order[j]]@ && (!keeps[j] ==> vals[j]@.len() == 0));
                if keeps[j] { assert(m1.contains_key(order[j]) && m1[order[j]] == vals[j]); } else { assert(!m1.contains_key(order[j])); if m0[p]@.contains_key(i) { assert(vals[j]@.contains_key(i)); assert(vals[j]@.len() > 0) by { if vals[j]@.len() == 0 { assert(vals[j]@.dom() =~= Set::<String>::empty()); } } } }
            }
        }
        assert(s1 is None && goal_none); assert(pq_none_goal(m0, m1, id));
    } else {
        let (f, i0) = choose|f: int, i0: String| 0 <= f < n && i0@ == id && #[trigger] m0[order[f]]@.contains_key(i0) && states[n] == Some(m0[order[f]]@[i0])
            && vals[f]@ == m0[order[f]]@.remove(i0) && (!keeps[f] ==> vals[f]@.len() == 0)
            && forall|j: int| 0 <= j < n && j != f ==> (#[trigger] vals[j])@ == m0[order[j]]@ && (keeps[j] || vals[j]@.len() == 0) && !(j < f && has_idkey(m0[order[j]], id));
        let p0 = order[f]; let x = m0[p0]@[i0];
        assert(order.contains(p0)); assert(m0.contains_key(p0));
        assert(s1 == Some(x) && static_has(m0, p0, i0, x));
        assert forall|p: String, i: String, y: RouteRef<T>| #[trigger] static_has(m1, p, i, y) <==> static_has(m0, p, i, y) && !(p == p0 && i == i0) by {
            if !m0.contains_key(p) { assert(!m1.contains_key(p)); }
            if m0.contains_key(p) {
                let j = choose|j: int| 0 <= j < n && #[trigger] order[j] == p;
                if j == f {
                    if keeps[j] { assert(m1.contains_key(order[j]) && m1[order[j]] == vals[j]); } else { assert(!m1.contains_key(order[j])); if m0[p]@.contains_key(i) && i != i0 { assert(vals[j]@.contains_key(i)); assert(vals[j]@.len() > 0) by { if vals[j]@.len() == 0 { assert(vals[j]@.dom() =~= Set::<String>::empty()); } } } }
                } else {
                    assert(p != p0) by { if p == p0 { assert(order[j] == order[f]); } }
                    assert(vals[j]@ == m0[order[j]]@);
                    if keeps[j] { assert(m1.contains_key(order[j]) && m1[order[j]] == vals[j]); } else { assert(!m1.contains_key(order[j])); assert(vals[j]@.len() == 0); if m0[p]@.contains_key(i) { assert(vals[j]@.contains_key(i)); assert(vals[j]@.dom() =~= Set::<String>::empty()); } }
                }
            }
        }
        assert(exists|pa: String, ia: String| ia@ == id && #[trigger] static_has(m0, pa, ia, x) && forall|p: String, i: String, y: RouteRef<T>| #[trigger] static_has(m1, p, i, y) <==> static_has(m0, p, i, y) && !(p == pa && i == ia)) by { assert(static_has(m0, p0, i0, x)); }
        assert(pq_some_goal(m0, m1, id, x));
    }
}
pub proof fn lemma_pq_sub<T>(o: PathAndQueryMatcher<T>, n: PathAndQueryMatcher<T>)
    requires o.wf(),
        forall|p: String, i: String, y: RouteRef<T>| #[trigger] static_has(n.static_rules@, p, i, y) ==> static_has(o.static_rules@, p, i, y),
        forall|key: (Seq<char>, Seq<char>)| #[trigger] n.regex_tree_rule.tmap2().contains_key(key) ==> o.regex_tree_rule.tmap2().contains_key(key) && o.regex_tree_rule.tmap2()[key] == n.regex_tree_rule.tmap2()[key],
    ensures forall|x: RouteRef<T>| #[trigger] n.sholds(x) ==> o.sholds(x),
        forall|p: String, i: String| n.static_rules@.contains_key(p) && #[trigger] n.static_rules@[p]@.contains_key(i) ==> rid(*n.static_rules@[p]@[i]) == i@ && rpath(*n.static_rules@[p]@[i]) == PathKey::Static(p@),
        forall|key: (Seq<char>, Seq<char>)| #[trigger] n.regex_tree_rule.tmap2().contains_key(key) ==> rid(*n.regex_tree_rule.tmap2()[key]) == key.1 && rpath(*n.regex_tree_rule.tmap2()[key]) == PathKey::Dynamic(key.0),
{
    assert forall|x: RouteRef<T>| #[trigger] n.sholds(x) implies o.sholds(x) by {
        if n.in_static(x) { let (p, i) = choose|p: String, i: String| n.static_rules@.contains_key(p) && #[trigger] n.static_rules@[p]@.contains_key(i) && n.static_rules@[p]@[i] == x; assert(static_has(n.static_rules@, p, i, x)); assert(static_has(o.static_rules@, p, i, x)); assert(o.in_static(x)); }
        if n.in_tree(x) { let key = choose|key: (Seq<char>, Seq<char>)| #[trigger] n.regex_tree_rule.tmap2().contains_key(key) && n.regex_tree_rule.tmap2()[key] == x; assert(o.regex_tree_rule.tmap2().contains_key(key)); assert(o.in_tree(x)); }
    }
    assert forall|p: String, i: String| n.static_rules@.contains_key(p) && #[trigger] n.static_rules@[p]@.contains_key(i) implies rid(*n.static_rules@[p]@[i]) == i@ && rpath(*n.static_rules@[p]@[i]) == PathKey::Static(p@) by {
        assert(static_has(n.static_rules@, p, i, n.static_rules@[p]@[i])); assert(static_has(o.static_rules@, p, i, n.static_rules@[p]@[i]));
    }
}
pub proof fn lemma_pq_removed<T>(o: PathAndQueryMatcher<T>, n: PathAndQueryMatcher<T>, id: Seq<char>, r: Option<RouteRef<T>>)
    requires o.wf(), n.count + (if r is Some { 1int } else { 0int }) == o.count,
        forall|x: RouteRef<T>| #![trigger n.sholds(x)] n.sholds(x) <==> o.sholds(x) && rid(*x) != id,
        r matches Some(x) ==> o.sholds(x) && rid(*x) == id, r is None ==> forall|y: RouteRef<T>| #[trigger] o.sholds(y) ==> rid(*y) != id,
        forall|p: String, i: String| n.static_rules@.contains_key(p) && #[trigger] n.static_rules@[p]@.contains_key(i) ==> rid(*n.static_rules@[p]@[i]) == i@ && rpath(*n.static_rules@[p]@[i]) == PathKey::Static(p@),
        forall|key: (Seq<char>, Seq<char>)| #[trigger] n.regex_tree_rule.tmap2().contains_key(key) ==> rid(*n.regex_tree_rule.tmap2()[key]) == key.1 && rpath(*n.regex_tree_rule.tmap2()[key]) == PathKey::Dynamic(key.0),
    ensures removed_rel(o, n, id, r),
{
    assert forall|y: RouteRef<T>| #![trigger n.holds(y)] #![trigger o.holds(y)] n.holds(y) <==> o.holds(y) && rid(*y) != id by {}
    if r is Some { let x = r.unwrap(); assert(o.holds(x)); assert(o.sholds(x) && !n.sholds(x)); }
    else { assert forall|y: RouteRef<T>| #[trigger] o.holds(y) implies rid(*y) != id by { assert(o.sholds(y)); } }
    lemma_uniq_subset(o, n); lemma_pq_uniq_bridge(n);
    lemma_pq_counted_sub(o, n, r is Some);
}

pub proof fn lemma_pq_batched<T>(o: PathAndQueryMatcher<T>, n: PathAndQueryMatcher<T>, ids: Set<String>)
    requires o.wf(), n.count == o.count,
        forall|x: RouteRef<T>| #![trigger n.sholds(x)] n.sholds(x) <==> o.sholds(x) && !ids_has(ids, rid(*x)),
        forall|p: String, i: String| n.static_rules@.contains_key(p) && #[trigger] n.static_rules@[p]@.contains_key(i) ==> rid(*n.static_rules@[p]@[i]) == i@ && rpath(*n.static_rules@[p]@[i]) == PathKey::Static(p@),
        forall|key: (Seq<char>, Seq<char>)| #[trigger] n.regex_tree_rule.tmap2().contains_key(key) ==> rid(*n.regex_tree_rule.tmap2()[key]) == key.1 && rpath(*n.regex_tree_rule.tmap2()[key]) == PathKey::Dynamic(key.0),
    ensures batched_rel(o, n, ids),
{
    assert forall|y: RouteRef<T>| #![trigger n.holds(y)] #![trigger o.holds(y)] n.holds(y) <==> o.holds(y) && !ids_has(ids, rid(*y)) by {}
    lemma_uniq_subset(o, n); lemma_pq_uniq_bridge(n);
    lemma_pq_counted_sub(o, n, false);
}

// C01 exactness of the path-and-query layer (the leaf). The answer is the contract verified for PathAndQueryMatcher::match_request in
// unit rtr + unit tree (lookup == linear scan of the stored patterns): every route stored under a pattern that matches the request's
// path, plus the static bucket of exactly that path.
pub uninterp spec fn req_path(q: Request) -> Seq<char>;
pub uninterp spec fn re_match(pattern: Seq<char>, haystack: Seq<char>) -> bool;
pub open spec fn path_answers<T>(m: PathAndQueryMatcher<T>, q: Request, x: RouteRef<T>) -> bool {
    ||| exists|key: (Seq<char>, Seq<char>)| #[trigger] m.regex_tree_rule.tmap2().contains_key(key) && re_match(key.0, req_path(q)) && m.regex_tree_rule.tmap2()[key] == x
    ||| exists|p: String, i: String| p@ == req_path(q) && m.static_rules@.contains_key(p) && #[trigger] m.static_rules@[p]@.contains_key(i) && m.static_rules@[p]@[i] == x
}
// the path trigger of a rule: its literal equals the request's path-and-query, or its pattern matches it
pub open spec fn path_sat<T>(x: RouteRef<T>, q: Request) -> bool { match rpath(*x) { PathKey::Static(p) => p == req_path(q), PathKey::Dynamic(pat) => re_match(pat, req_path(q)) } }
pub proof fn lemma_path_exact<T>(m: PathAndQueryMatcher<T>, q: Request)
    requires m.wf(),
    ensures forall|x: RouteRef<T>| #[trigger] path_answers(m, q, x) <==> m.holds(x) && path_sat(x, q),
{
    axiom_string_ext();
    let t = m.regex_tree_rule.tmap2(); let st = m.static_rules@;
    assert forall|x: RouteRef<T>| #[trigger] path_answers(m, q, x) <==> m.holds(x) && path_sat(x, q) by {
        if exists|key: (Seq<char>, Seq<char>)| #[trigger] t.contains_key(key) && re_match(key.0, req_path(q)) && t[key] == x { let key = choose|key: (Seq<char>, Seq<char>)| #[trigger] t.contains_key(key) && re_match(key.0, req_path(q)) && t[key] == x; assert(m.in_tree(x)); }
        if exists|p: String, i: String| p@ == req_path(q) && st.contains_key(p) && #[trigger] st[p]@.contains_key(i) && st[p]@[i] == x { let (p, i) = choose|p: String, i: String| p@ == req_path(q) && st.contains_key(p) && #[trigger] st[p]@.contains_key(i) && st[p]@[i] == x; assert(m.in_static(x)); }
        if m.holds(x) && path_sat(x, q) {
            if m.in_tree(x) { let key = choose|key: (Seq<char>, Seq<char>)| #[trigger] t.contains_key(key) && t[key] == x; assert(rpath(*x) == PathKey::Dynamic(key.0)); }
            else { let (p, i) = choose|p: String, i: String| st.contains_key(p) && #[trigger] st[p]@.contains_key(i) && st[p]@[i] == x; assert(rpath(*x) == PathKey::Static(p@)); }
        }
    }
}
impl<T> PathAndQueryMatcher<T> {
    //@@ fn src/router/request_matcher/path_and_query.rs :: impl <T>PathAndQueryMatcher<T> / fn new -> r
    //@| ensures r.wf(), r.cnt() == 0, forall|x: RouteRef<T>| !r.holds(x),
    //@| entry broadcast use group_hash_axioms; broadcast use axiom_string_key_model;
    //@| exit proof { let w = Set::<RouteRef<T>>::empty(); assert(w.len() <= vf_ret.count && forall|x: RouteRef<T>| w.contains(x) <==> vf_ret.sholds(x)); }

    //@@ fn src/router/request_matcher/path_and_query.rs :: impl <T>PathAndQueryMatcher<T> / fn insert
    //@| requires old(self).wf(), old(self).cnt() < usize::MAX, forall|x: RouteRef<T>| old(self).holds(x) ==> rid(*x) != rid(*route),
    //@| ensures inserted_rel(*old(self), *final(self), route),
    //@| entry broadcast use group_hash_axioms; broadcast use axiom_string_key_model; broadcast use axiom_borrow_string_upd; broadcast use axiom_arc_cloned;
    //@|     let ghost s0 = self.static_rules@; let ghost t0 = self.regex_tree_rule.tmap2(); let ghost rt = route;
    //@|     proof { axiom_string_ext(); }
    //@| exit proof {
    //@|     let s2 = self.static_rules@; let t2 = self.regex_tree_rule.tmap2();
    //@|     match rpath_of(rt) {
    //@|         PathKey::Static(pp) => {
    //@|             let p = choose|p: String| p@ == pp && s2.contains_key(p); let i = choose|i: String| i@ == rid_of(rt) && s2[p]@.contains_key(i) && s2[p]@[i] == rt;
    //@|             assert(t2 == t0);
    //@|             assert forall|x: RouteRef<T>| #![trigger self.sholds(x)] self.sholds(x) <==> old(self).sholds(x) || x == rt by {
    //@|                 if self.in_static(x) && x != rt { let (p2, i2) = choose|p2: String, i2: String| s2.contains_key(p2) && #[trigger] s2[p2]@.contains_key(i2) && s2[p2]@[i2] == x; if p2 == p { assert(i2 != i); assert(s0.contains_key(p) && s0[p]@.contains_key(i2) && s0[p]@[i2] == x); } else { assert(s0.contains_key(p2) && s0[p2] == s2[p2]); } assert(old(self).in_static(x)); }
    //@|                 if old(self).in_static(x) { let (p2, i2) = choose|p2: String, i2: String| s0.contains_key(p2) && #[trigger] s0[p2]@.contains_key(i2) && s0[p2]@[i2] == x; assert(old(self).sholds(x)); assert(old(self).holds(x)); assert(rid(*x) == i2@); assert(i2 != i); assert(s2.contains_key(p2) && s2[p2]@.contains_key(i2) && s2[p2]@[i2] == x); }
    //@|                 if x == rt { assert(s2.contains_key(p) && s2[p]@.contains_key(i) && s2[p]@[i] == x); }
    //@|                 if self.in_tree(x) { assert(old(self).in_tree(x)); } if old(self).in_tree(x) { assert(self.in_tree(x)); }
    //@|             }
    //@|             assert forall|p2: String, i2: String| s2.contains_key(p2) && #[trigger] s2[p2]@.contains_key(i2) implies rid(*s2[p2]@[i2]) == i2@ && rpath(*s2[p2]@[i2]) == PathKey::Static(p2@) by {
    //@|                 if p2 == p { if i2 != i { assert(s0.contains_key(p) && s0[p]@.contains_key(i2) && s0[p]@[i2] == s2[p]@[i2]); } } else { assert(s0.contains_key(p2) && s0[p2] == s2[p2]); }
    //@|             }
    //@|         },
    //@|         PathKey::Dynamic(pat) => {
    //@|             let key = (pat, rid_of(rt));
    //@|             assert(s2 == s0 && t2 == t0.insert(key, rt));
    //@|             assert(!t0.contains_key(key)) by { if t0.contains_key(key) { assert(old(self).in_tree(t0[key])); assert(old(self).sholds(t0[key])); assert(old(self).holds(t0[key])); } }
    //@|             assert forall|x: RouteRef<T>| #![trigger self.sholds(x)] self.sholds(x) <==> old(self).sholds(x) || x == rt by {
    //@|                 if self.in_tree(x) && x != rt { let k2 = choose|k2: (Seq<char>, Seq<char>)| #[trigger] t2.contains_key(k2) && t2[k2] == x; assert(k2 != key); assert(t0.contains_key(k2) && t0[k2] == x); assert(old(self).in_tree(x)); }
    //@|                 if old(self).in_tree(x) { let k2 = choose|k2: (Seq<char>, Seq<char>)| #[trigger] t0.contains_key(k2) && t0[k2] == x; assert(k2 != key); assert(t2.contains_key(k2) && t2[k2] == x); }
    //@|                 if x == rt { assert(t2.contains_key(key) && t2[key] == x); }
    //@|                 if self.in_static(x) { assert(old(self).in_static(x)); } if old(self).in_static(x) { assert(self.in_static(x)); }
    //@|             }
    //@|             assert forall|k2: (Seq<char>, Seq<char>)| #[trigger] t2.contains_key(k2) implies rid(*t2[k2]) == k2.1 && rpath(*t2[k2]) == PathKey::Dynamic(k2.0) by { if k2 != key { assert(t0.contains_key(k2)); } }
    //@|         },
    //@|     }
    //@|     lemma_pq_inserted(*old(self), *self, rt);
    //@| }

    //@@ fn src/router/request_matcher/path_and_query.rs :: impl <T>PathAndQueryMatcher<T> / fn remove -> r
    //@| requires old(self).wf(),
    //@| ensures removed_rel(*old(self), *final(self), id@, r),
    //@| statelift `self.static_rules.retain(|_, matcher|` var `removed` helper `vf_retain_st` header `|_k: &String, matcher: &mut IdMap<T>, vf_st: &mut Option<RouteRef<T>>| -> (b: bool) ensures post_pq::<T>(id@)(*_k, *old(matcher), *final(matcher), *old(vf_st), *final(vf_st), b)` ghost `Ghost(post_pq::<T>(id@))`
    //@| before `self.static_rules.retain(`: let ghost vf_m0 = self.static_rules@;
    //@| before `removed = matcher.remove(id);`: broadcast use group_hash_axioms; broadcast use axiom_string_key_model; broadcast use axiom_borrow_str_removed; broadcast use axiom_borrow_str_contains; broadcast use axiom_borrow_str_maps; let ghost vf_v0 = matcher@; proof { axiom_string_ext(); }
    //@| after `removed = matcher.remove(id);`: proof { if (*vf_st) is Some { let i0 = choose|i0: String| i0@ == id@ && vf_v0.contains_key(i0) && vf_v0[i0] == (*vf_st).unwrap(); assert(matcher@ == vf_v0.remove(i0)); } else { assert(!has_idkey(*old(matcher), id@)); } } proof { assert((*old(vf_st)) is None); assert(matcher@ == vf_v0.remove(choose|i0: String| i0@ == id@ && vf_v0.contains_key(i0)) || matcher@ == vf_v0); assert((exists|i0: String| i0@ == id@ && #[trigger] vf_v0.contains_key(i0) && matcher@ == vf_v0.remove(i0) && (*vf_st) == Some(vf_v0[i0])) || (!has_idkey(*old(matcher), id@) && matcher@ == vf_v0 && (*vf_st) is None)); }
    //@| before `if removed.is_some() {`#$: proof { lemma_chain_pq(vf_m0, self.static_rules@, removed, id@);
    //@|     assert(self.regex_tree_rule.tmap2() == t0);
    //@|     if removed is Some { let x = removed.unwrap(); let (p0, i0) = choose|p0: String, i0: String| i0@ == id@ && #[trigger] static_has(s0, p0, i0, x) && forall|p: String, i: String, y: RouteRef<T>| #[trigger] static_has(self.static_rules@, p, i, y) <==> static_has(s0, p, i, y) && !(p == p0 && i == i0); assert(old(self).in_static(x)); assert(old(self).sholds(x)); assert(old(self).holds(x)); }
    //@| }
    //@| entry broadcast use group_hash_axioms; broadcast use axiom_string_key_model;
    //@|     let ghost s0 = self.static_rules@; let ghost t0 = self.regex_tree_rule.tmap2();
    //@|     proof { axiom_string_ext(); lemma_pq_wf(*self); }
    //@| before `self.count -= 1;`#0: proof {
    //@|     let pp = choose|pp: Seq<char>| #[trigger] t0.contains_key((pp, id@)) && t0[(pp, id@)] == route && self.regex_tree_rule.tmap2() == t0.remove((pp, id@));
    //@|     assert(old(self).in_tree(route)); assert(old(self).sholds(route)); assert(old(self).holds(route));
    //@| }
    //@| before `return Some(route);`: proof {
    //@|     let pp = choose|pp: Seq<char>| #[trigger] t0.contains_key((pp, id@)) && t0[(pp, id@)] == route && self.regex_tree_rule.tmap2() == t0.remove((pp, id@));
    //@|     let key = (pp, id@); let t2 = self.regex_tree_rule.tmap2();
    //@|     assert forall|p: String, i: String, y: RouteRef<T>| #[trigger] static_has(self.static_rules@, p, i, y) implies static_has(s0, p, i, y) by {}
    //@|     lemma_pq_sub(*old(self), *self);
    //@|     assert forall|x: RouteRef<T>| #![trigger self.sholds(x)] self.sholds(x) <==> old(self).sholds(x) && rid(*x) != id@ by {
    //@|         if old(self).sholds(x) && rid(*x) == id@ { assert(old(self).sholds(route)); assert(x == route); }
    //@|         if old(self).in_tree(x) && x != route { let k2 = choose|k2: (Seq<char>, Seq<char>)| #[trigger] t0.contains_key(k2) && t0[k2] == x; assert(k2 != key); assert(t2.contains_key(k2) && t2[k2] == x); assert(self.in_tree(x)); }
    //@|         if old(self).in_static(x) { assert(self.in_static(x)); }
    //@|         if self.in_tree(x) { let k2 = choose|k2: (Seq<char>, Seq<char>)| #[trigger] t2.contains_key(k2) && t2[k2] == x; assert(k2 != key); assert(rid(*x) == k2.1); if rid(*x) == id@ { assert(old(self).sholds(x) && old(self).sholds(route)); } }
    //@|         if self.in_static(x) && rid(*x) == id@ { assert(old(self).sholds(x) && old(self).sholds(route)); assert(x == route); let (p, i) = choose|p: String, i: String| s0.contains_key(p) && #[trigger] s0[p]@.contains_key(i) && s0[p]@[i] == x; assert(rpath(*x) == PathKey::Static(p@)); assert(rpath(*route) == PathKey::Dynamic(pp)); }
    //@|     }
    //@|     lemma_pq_removed(*old(self), *self, id@, Some(route));
    //@| }
    //@| exit proof {
    //@|     let s2 = self.static_rules@;
    //@|     assert forall|p: String, i: String, y: RouteRef<T>| #[trigger] static_has(s2, p, i, y) implies static_has(s0, p, i, y) by {}
    //@|     lemma_pq_sub(*old(self), *self);
    //@|     assert forall|x: RouteRef<T>| #![trigger self.sholds(x)] self.sholds(x) <==> old(self).sholds(x) && rid(*x) != id@ by {
    //@|         if self.in_tree(x) { assert(old(self).in_tree(x)); let k2 = choose|k2: (Seq<char>, Seq<char>)| #[trigger] t0.contains_key(k2) && t0[k2] == x; assert(rid(*x) == k2.1); assert(!t0.contains_key((k2.0, id@))); }
    //@|         if old(self).in_tree(x) { assert(self.in_tree(x)); let k2 = choose|k2: (Seq<char>, Seq<char>)| #[trigger] t0.contains_key(k2) && t0[k2] == x; assert(rid(*x) == k2.1); assert(!t0.contains_key((k2.0, id@))); }
    //@|         if self.in_static(x) { let (p, i) = choose|p: String, i: String| s2.contains_key(p) && #[trigger] s2[p]@.contains_key(i) && s2[p]@[i] == x; assert(static_has(s2, p, i, x)); assert(static_has(s0, p, i, x)); assert(rid(*x) == i@);
    //@|             if removed is Some { let x0 = removed.unwrap(); let (p0, i0) = choose|p0: String, i0: String| i0@ == id@ && #[trigger] static_has(s0, p0, i0, x0) && forall|p: String, i: String, y: RouteRef<T>| #[trigger] static_has(s2, p, i, y) <==> static_has(s0, p, i, y) && !(p == p0 && i == i0);
    //@|                 if i@ == id@ { assert(i == i0); assert(old(self).in_static(x) && old(self).in_static(x0)); assert(old(self).sholds(x) && old(self).sholds(x0)); assert(x == x0); assert(rpath(*x) == PathKey::Static(p@) && rpath(*x0) == PathKey::Static(p0@)); assert(p == p0); } } }
    //@|         if old(self).in_static(x) && rid(*x) != id@ { let (p, i) = choose|p: String, i: String| s0.contains_key(p) && #[trigger] s0[p]@.contains_key(i) && s0[p]@[i] == x; assert(static_has(s0, p, i, x)); assert(i@ != id@); assert(static_has(s2, p, i, x)); assert(self.in_static(x)); }
    //@|     }
    //@|     if removed is None { assert forall|y: RouteRef<T>| #[trigger] old(self).sholds(y) implies rid(*y) != id@ by {
    //@|         if old(self).in_tree(y) { let k2 = choose|k2: (Seq<char>, Seq<char>)| #[trigger] t0.contains_key(k2) && t0[k2] == y; assert(!t0.contains_key((k2.0, id@))); }
    //@|         if old(self).in_static(y) { let (p, i) = choose|p: String, i: String| s0.contains_key(p) && #[trigger] s0[p]@.contains_key(i) && s0[p]@[i] == y; assert(rid(*y) == i@); } } }
    //@|     lemma_pq_removed(*old(self), *self, id@, removed);
    //@| }

    //@@ fn src/router/request_matcher/path_and_query.rs :: impl <T>PathAndQueryMatcher<T> / fn batch_remove -> r
    //@| requires old(self).wf(),
    //@| ensures batched_rel(*old(self), *final(self), ids@),
    //@| closure `|_, matcher|` => `|_k: &String, matcher: &mut IdMap<T>| -> (b: bool) ensures kept_bucket(old(matcher)@, final(matcher)@, ids@), !b ==> dropped_bucket(old(matcher)@, final(matcher)@, ids@)`
    //@| closure `|id, _|`#0 => `|id: &String, _v: &mut RouteRef<T>| -> (b: bool) ensures b == !ids@.contains(*id), *final(_v) == *old(_v)`
    //@| closure `|id, _|`#1 => `|id: &str, _v: &mut RouteRef<T>| -> (b: bool) ensures b == !ids_has(ids@, id@), *final(_v) == *old(_v)`
    //@| entry broadcast use group_hash_axioms; broadcast use axiom_string_key_model; broadcast use axiom_set_borrow_str;
    //@|     let ghost s0 = self.static_rules@; let ghost t0 = self.regex_tree_rule.tmap2();
    //@|     proof { axiom_string_ext(); }
    //@| exit proof {
    //@|     let s2 = self.static_rules@; let t2 = self.regex_tree_rule.tmap2();
    //@|     assert forall|p: String, i: String, y: RouteRef<T>| #[trigger] static_has(s2, p, i, y) <==> static_has(s0, p, i, y) && !ids@.contains(i) by {
    //@|         if static_has(s0, p, i, y) && !ids@.contains(i) && !s2.contains_key(p) {
    //@|             // the bucket was dropped although the predicate kept entry i: impossible (a dropped bucket is empty)
    //@|             let fm = choose|fm: Map<String, RouteRef<T>>| #[trigger] dropped_bucket(s0[p]@, fm, ids@);
    //@|             assert(fm.contains_key(i)); assert(fm.dom().contains(i)); assert(fm.dom().len() > 0) by { if fm.dom().len() == 0 { assert(fm.dom() =~= Set::<String>::empty()); } }
    //@|         }
    //@|     }
    //@|     assert forall|p: String, i: String, y: RouteRef<T>| #[trigger] static_has(s2, p, i, y) implies static_has(s0, p, i, y) by {}
    //@|     lemma_pq_sub(*old(self), *self);
    //@|     assert forall|x: RouteRef<T>| #![trigger self.sholds(x)] self.sholds(x) <==> old(self).sholds(x) && !ids_has(ids@, rid(*x)) by {
    //@|         if self.in_static(x) { let (p, i) = choose|p: String, i: String| s2.contains_key(p) && #[trigger] s2[p]@.contains_key(i) && s2[p]@[i] == x; assert(static_has(s2, p, i, x)); assert(static_has(s0, p, i, x) && !ids@.contains(i)); assert(old(self).in_static(x)); assert(rid(*x) == i@);
    //@|             if ids_has(ids@, rid(*x)) { let k = choose|k: String| k@ == rid(*x) && ids@.contains(k); assert(k == i); } }
    //@|         if old(self).in_static(x) && !ids_has(ids@, rid(*x)) { let (p, i) = choose|p: String, i: String| s0.contains_key(p) && #[trigger] s0[p]@.contains_key(i) && s0[p]@[i] == x; assert(static_has(s0, p, i, x)); assert(rid(*x) == i@); assert(!ids@.contains(i)); assert(static_has(s2, p, i, x)); assert(self.in_static(x)); }
    //@|         if self.in_tree(x) { let k2 = choose|k2: (Seq<char>, Seq<char>)| #[trigger] t2.contains_key(k2) && t2[k2] == x; assert(t0.contains_key(k2) && t0[k2] == x); assert(old(self).in_tree(x)); assert(rid(*x) == k2.1); }
    //@|         if old(self).in_tree(x) && !ids_has(ids@, rid(*x)) { let k2 = choose|k2: (Seq<char>, Seq<char>)| #[trigger] t0.contains_key(k2) && t0[k2] == x; assert(rid(*x) == k2.1); assert(t2.contains_key(k2) && t2[k2] == x); assert(self.in_tree(x)); }
    //@|     }
    //@|     lemma_pq_batched(*old(self), *self, ids@);
    //@| }

    // C12 / C02 (path layer): warming the cache touches only the tree's regex cache
    //@@ fn src/router/request_matcher/path_and_query.rs :: impl <T>PathAndQueryMatcher<T> / fn cache -> r
    //@| requires old(self).wf(),
    //@| ensures same_store(*old(self), *final(self)), r <= limit,
    //@| exit proof {
    //@|     assert(self.static_rules@ == old(self).static_rules@); assert(self.regex_tree_rule.tmap2() == old(self).regex_tree_rule.tmap2());
    //@|     assert forall|x: RouteRef<T>| self.in_static(x) == old(self).in_static(x) by {}
    //@|     assert forall|x: RouteRef<T>| self.in_tree(x) == old(self).in_tree(x) by {}
    //@|     assert forall|x: RouteRef<T>| #![trigger self.sholds(x)] #![trigger old(self).sholds(x)] self.sholds(x) <==> old(self).sholds(x) by { assert(self.in_static(x) == old(self).in_static(x)); assert(self.in_tree(x) == old(self).in_tree(x)); }
    //@|     lemma_pq_counted_sub(*old(self), *self, false);
    //@| }

    //@@ fn src/router/request_matcher/path_and_query.rs :: impl <T>PathAndQueryMatcher<T> / fn len -> r
    //@| ensures r == self.cnt(),
    //@@ fn src/router/request_matcher/path_and_query.rs :: impl <T>PathAndQueryMatcher<T> / fn is_empty -> r
    //@| ensures r == (self.cnt() == 0),
}

// ================================================================ C02 corollary: answers depend only on the stored set
// Two states of a layer that satisfy the invariant and store the same routes answer every request alike — in particular the state reached
// by any history of insert / remove / batch_remove and the state of a layer rebuilt from the surviving rules (the mutator laws above
// make their stored sets equal). One lemma per layer; the host layer includes the any-host policy.
pub proof fn c02_scheme_rebuild<T>(a: SchemeMatcher<T>, b: SchemeMatcher<T>, q: Request)
    requires a.wf(), b.wf(), forall|x: RouteRef<T>| a.holds(x) <==> b.holds(x),
    ensures forall|x: RouteRef<T>| scheme_answers(a, q, x) <==> scheme_answers(b, q, x),
{ lemma_scheme_exact(a, q); lemma_scheme_exact(b, q); }
pub proof fn c02_host_rebuild<T>(a: HostMatcher<T>, b: HostMatcher<T>, q: Request)
    requires a.wf(), b.wf(), forall|x: RouteRef<T>| a.holds(x) <==> b.holds(x), a.always_match_any_host == b.always_match_any_host,
    ensures forall|x: RouteRef<T>| host_answers(a, q, x) <==> host_answers(b, q, x),
{
    lemma_host_exact(a, q); lemma_host_exact(b, q);
    assert forall|x: RouteRef<T>| host_answers(a, q, x) <==> host_answers(b, q, x) by {
        assert((exists|y: RouteRef<T>| a.holds(y) && host_sat_specific(y, q) && #[trigger] sat_below(y, q)) <==> (exists|y: RouteRef<T>| b.holds(y) && host_sat_specific(y, q) && #[trigger] sat_below(y, q))) by {
            if (exists|y: RouteRef<T>| a.holds(y) && host_sat_specific(y, q) && #[trigger] sat_below(y, q)) { let y = choose|y: RouteRef<T>| a.holds(y) && host_sat_specific(y, q) && #[trigger] sat_below(y, q); assert(b.holds(y)); }
            if (exists|y: RouteRef<T>| b.holds(y) && host_sat_specific(y, q) && #[trigger] sat_below(y, q)) { let y = choose|y: RouteRef<T>| b.holds(y) && host_sat_specific(y, q) && #[trigger] sat_below(y, q); assert(a.holds(y)); }
        }
        assert(host_exact(a, q, x) <==> host_exact(b, q, x));
    }
}
pub proof fn c02_ip_rebuild<T>(a: IpMatcher<T>, b: IpMatcher<T>, q: Request)
    requires a.wf(), b.wf(), forall|x: RouteRef<T>| a.holds(x) <==> b.holds(x),
    ensures forall|x: RouteRef<T>| ip_answers(a, q, x) <==> ip_answers(b, q, x),
{ lemma_ip_exact(a, q); lemma_ip_exact(b, q); }
pub proof fn c02_method_rebuild<T>(a: MethodMatcher<T>, b: MethodMatcher<T>, q: Request)
    requires a.wf(), b.wf(), forall|x: RouteRef<T>| a.holds(x) <==> b.holds(x),
    ensures forall|x: RouteRef<T>| method_answers(a, q, x) <==> method_answers(b, q, x),
{ lemma_method_exact(a, q); lemma_method_exact(b, q); }
pub proof fn c02_header_rebuild<T>(a: HeaderMatcher<T>, b: HeaderMatcher<T>, q: Request)
    requires a.wf(), b.wf(), forall|x: RouteRef<T>| a.holds(x) <==> b.holds(x),
    ensures forall|x: RouteRef<T>| header_answers(a, q, x) <==> header_answers(b, q, x),
{ lemma_header_exact(a, q); lemma_header_exact(b, q); }
pub proof fn c02_datetime_rebuild<T>(a: DateTimeMatcher<T>, b: DateTimeMatcher<T>, q: Request)
    requires a.wf(), b.wf(), forall|x: RouteRef<T>| a.holds(x) <==> b.holds(x),
    ensures forall|x: RouteRef<T>| datetime_answers(a, q, x) <==> datetime_answers(b, q, x),
{ lemma_datetime_exact(a, q); lemma_datetime_exact(b, q); }
pub proof fn c02_path_rebuild<T>(a: PathAndQueryMatcher<T>, b: PathAndQueryMatcher<T>, q: Request)
    requires a.wf(), b.wf(), forall|x: RouteRef<T>| a.holds(x) <==> b.holds(x),
    ensures forall|x: RouteRef<T>| path_answers(a, q, x) <==> path_answers(b, q, x),
{ lemma_path_exact(a, q); lemma_path_exact(b, q); }

// ================================================================ C12 corollary: warming a layer's cache changes no answer of that layer
// (each layer's `cache` is verified above to keep the invariant and the stored set; by the layer's exactness the answers are a function of those)
pub proof fn c12_scheme_cache<T>(a: SchemeMatcher<T>, b: SchemeMatcher<T>, q: Request)
    requires a.wf(), same_store(a, b),
    ensures forall|x: RouteRef<T>| scheme_answers(a, q, x) <==> scheme_answers(b, q, x),
{ c02_scheme_rebuild(a, b, q); }
pub proof fn c12_host_cache<T>(a: HostMatcher<T>, b: HostMatcher<T>, q: Request)
    requires a.wf(), same_store(a, b), a.always_match_any_host == b.always_match_any_host,
    ensures forall|x: RouteRef<T>| host_answers(a, q, x) <==> host_answers(b, q, x),
{ c02_host_rebuild(a, b, q); }
pub proof fn c12_ip_cache<T>(a: IpMatcher<T>, b: IpMatcher<T>, q: Request)
    requires a.wf(), same_store(a, b),
    ensures forall|x: RouteRef<T>| ip_answers(a, q, x) <==> ip_answers(b, q, x),
{ c02_ip_rebuild(a, b, q); }
pub proof fn c12_method_cache<T>(a: MethodMatcher<T>, b: MethodMatcher<T>, q: Request)
    requires a.wf(), same_store(a, b),
    ensures forall|x: RouteRef<T>| method_answers(a, q, x) <==> method_answers(b, q, x),
{ c02_method_rebuild(a, b, q); }
pub proof fn c12_header_cache<T>(a: HeaderMatcher<T>, b: HeaderMatcher<T>, q: Request)
    requires a.wf(), same_store(a, b),
    ensures forall|x: RouteRef<T>| header_answers(a, q, x) <==> header_answers(b, q, x),
{ c02_header_rebuild(a, b, q); }
pub proof fn c12_datetime_cache<T>(a: DateTimeMatcher<T>, b: DateTimeMatcher<T>, q: Request)
    requires a.wf(), same_store(a, b),
    ensures forall|x: RouteRef<T>| datetime_answers(a, q, x) <==> datetime_answers(b, q, x),
{ c02_datetime_rebuild(a, b, q); }
pub proof fn c12_path_cache<T>(a: PathAndQueryMatcher<T>, b: PathAndQueryMatcher<T>, q: Request)
    requires a.wf(), same_store(a, b),
    ensures forall|x: RouteRef<T>| path_answers(a, q, x) <==> path_answers(b, q, x),
{ c02_path_rebuild(a, b, q); }
// ---- PINS: the loop `for v in tree.iter_mut()` of HostMatcher::cache is summarised by vf_tree_iter_mut_st (assumed visiting contract); the functions
// that implement that iteration are tied to their present text
//@@ pin src/router_config.rs :: impl DefaultforRouterConfig / fn default = 449a1ef3085f
//@@ pin src/regex_radix_tree/tree.rs :: impl <V>UniqueRegexTreeMap<V> / fn iter_mut = 9c3549883f40
//@@ pin src/regex_radix_tree/tree.rs :: impl <V>RegexTreeMap<V> / fn iter_mut = 7a03d47f8502
//@@ pin src/regex_radix_tree/item.rs :: impl <V>Item<V> / fn iter_mut = 89a7b031dc68
//@@ pin src/regex_radix_tree/iter.rs :: impl <'a,V>IteratorforItemIterMut<'a,V> / fn next = b562ac969e5d

// ================================================================ Router (src/router/mod.rs)
//@@ rename SchemeMatcher Sub
//@@ item src/router/mod.rs :: struct Router
impl<T> Router<T> {
    // the live rules are the routes stored in the matcher; the id -> route table mirrors them exactly
    pub open spec fn live(&self, x: RouteRef<T>) -> bool { self.matcher.holds(x) }
    pub open spec fn wf(&self) -> bool {
        &&& self.matcher.wf()
        &&& forall|k: String| #[trigger] self.routes@.contains_key(k) ==> rid(*self.routes@[k]) == k@ && self.matcher.holds(self.routes@[k])
        &&& forall|x: RouteRef<T>| #[trigger] self.matcher.holds(x) ==> exists|k: String| self.routes@.contains_key(k) && self.routes@[k] == x
    }
}
pub open spec fn live_plus<T>(o: Router<T>, nw: Router<T>, n: RouteRef<T>) -> bool {
    forall|x: RouteRef<T>| #![trigger nw.live(x)] #![trigger o.live(x)] nw.live(x) <==> o.live(x) || x == n
}
pub proof fn lemma_router_uniq<T>(r: Router<T>)
    requires r.wf(),
    ensures forall|x: RouteRef<T>, k: String| #[trigger] r.matcher.holds(x) && rid(*x) == #[trigger] k@ ==> r.routes@.contains_key(k) && r.routes@[k] == x,
{
    axiom_string_ext();
    assert forall|x: RouteRef<T>, k: String| #[trigger] r.matcher.holds(x) && rid(*x) == #[trigger] k@ implies r.routes@.contains_key(k) && r.routes@[k] == x by {
        let k2 = choose|k2: String| r.routes@.contains_key(k2) && r.routes@[k2] == x;
        assert(k2@ == k@);
    }
}
// ================================================================ C01 "each such rule is reported exactly once": one source per rule
// match_request of a layer concatenates the answers of the buckets it consults (unit rtr proves the answer, as a MULTISET, to be that sum).
// A rule is therefore reported once iff (a) each consulted bucket reports it at most once (the same statement one layer down) and (b) at most
// ONE consulted bucket holds it. (b) is what the layer invariants give; it is stated here per layer over the buckets a request consults.
// (Scheme and Ip: proved on match_request itself, above — the Ip layer consults several range buckets that may hold the same rule: F7.)
pub proof fn c01_once_method<T>(m: MethodMatcher<T>, x: RouteRef<T>)
    requires m.wf(),
    ensures !(m.any_method.holds(x) && map_holds(m.methods@, x)), !(m.any_method.holds(x) && map_holds(m.exclude_methods@, x)),
        !(map_holds(m.methods@, x) && map_holds(m.exclude_methods@, x)),
        // one inclusion bucket is consulted (the request's method); among the exclusion buckets the rule sits in one only
        forall|k1: Vec<String>, k2: Vec<String>| m.exclude_methods@.contains_key(k1) && m.exclude_methods@.contains_key(k2) && #[trigger] m.exclude_methods@[k1].holds(x) && #[trigger] m.exclude_methods@[k2].holds(x) ==> k1 == k2,
{
    lemma_meth_excl_uniq(m);
    let kf = meth_kf::<T>(); let ekf = excl_kf::<T>();
    if m.any_method.holds(x) {
        assert(meth_any_ok(x));
        if map_holds(m.methods@, x) { let k = choose|k: String| m.methods@.contains_key(k) && #[trigger] m.methods@[k].holds(x); assert(kf(k, x)); }
        if map_holds(m.exclude_methods@, x) { let k = choose|k: Vec<String>| m.exclude_methods@.contains_key(k) && #[trigger] m.exclude_methods@[k].holds(x); assert(ekf(k, x)); }
    }
    if map_holds(m.methods@, x) && map_holds(m.exclude_methods@, x) { assert(map_holds(m.methods@, x) ==> !map_holds(m.exclude_methods@, x)); }
}
pub proof fn c01_once_header<T>(m: HeaderMatcher<T>, x: RouteRef<T>)
    requires m.wf(),
    ensures !(m.any_header.holds(x) && map_holds(m.condition_groups@, x)),
        forall|k1: BTreeSet<HeaderCondition>, k2: BTreeSet<HeaderCondition>| m.condition_groups@.contains_key(k1) && m.condition_groups@.contains_key(k2) && #[trigger] m.condition_groups@[k1].holds(x) && #[trigger] m.condition_groups@[k2].holds(x) ==> k1 == k2,
{
    lemma_hdr_map_uniq(m);
    let kf = hdr_kf::<T>();
    if m.any_header.holds(x) && map_holds(m.condition_groups@, x) { let k = choose|k: BTreeSet<HeaderCondition>| m.condition_groups@.contains_key(k) && #[trigger] m.condition_groups@[k].holds(x); assert(kf(k, x)); assert(rheaders(*x).len() == 0); }
}
pub proof fn c01_once_datetime<T>(m: DateTimeMatcher<T>, x: RouteRef<T>)
    requires m.wf(),
    ensures !(m.any_datetime.holds(x) && map_holds(m.condition_groups@, x)),
        forall|k1: BTreeSet<DateTimeCondition>, k2: BTreeSet<DateTimeCondition>| m.condition_groups@.contains_key(k1) && m.condition_groups@.contains_key(k2) && #[trigger] m.condition_groups@[k1].holds(x) && #[trigger] m.condition_groups@[k2].holds(x) ==> k1 == k2,
{
    lemma_dt_map_uniq(m);
    let kf = dt_kf::<T>();
    if m.any_datetime.holds(x) && map_holds(m.condition_groups@, x) { let k = choose|k: BTreeSet<DateTimeCondition>| m.condition_groups@.contains_key(k) && #[trigger] m.condition_groups@[k].holds(x); assert(kf(k, x)); assert(dt_none(x)); }
}
pub proof fn c01_once_host<T>(m: HostMatcher<T>, x: RouteRef<T>)
    requires m.wf(),
    ensures !(m.any_host.holds(x) && map_holds(m.static_hosts@, x)), !(m.any_host.holds(x) && map_holds(m.regex_tree_rule.tmap(), x)),
        !(map_holds(m.static_hosts@, x) && map_holds(m.regex_tree_rule.tmap(), x)),
        forall|k1: String, k2: String| m.static_hosts@.contains_key(k1) && m.static_hosts@.contains_key(k2) && #[trigger] m.static_hosts@[k1].holds(x) && #[trigger] m.static_hosts@[k2].holds(x) ==> k1 == k2,
        forall|k1: Seq<char>, k2: Seq<char>| m.regex_tree_rule.tmap().contains_key(k1) && m.regex_tree_rule.tmap().contains_key(k2) && #[trigger] m.regex_tree_rule.tmap()[k1].holds(x) && #[trigger] m.regex_tree_rule.tmap()[k2].holds(x) ==> k1 == k2,
{
    lemma_host_map_uniq(m);
}
pub proof fn c01_once_path<T>(m: PathAndQueryMatcher<T>, x: RouteRef<T>)
    requires m.wf(),
    ensures !(m.in_static(x) && m.in_tree(x)),
        forall|p1: String, i1: String, p2: String, i2: String| #[trigger] static_has(m.static_rules@, p1, i1, x) && #[trigger] static_has(m.static_rules@, p2, i2, x) ==> p1 == p2 && i1 == i2,
        forall|k1: (Seq<char>, Seq<char>), k2: (Seq<char>, Seq<char>)| #[trigger] m.regex_tree_rule.tmap2().contains_key(k1) && m.regex_tree_rule.tmap2()[k1] == x && #[trigger] m.regex_tree_rule.tmap2().contains_key(k2) && m.regex_tree_rule.tmap2()[k2] == x ==> k1 == k2,
{
    axiom_string_ext();
    let s = m.static_rules@; let t = m.regex_tree_rule.tmap2();
    if m.in_static(x) && m.in_tree(x) {
        let (p, i) = choose|p: String, i: String| s.contains_key(p) && #[trigger] s[p]@.contains_key(i) && s[p]@[i] == x;
        let key = choose|key: (Seq<char>, Seq<char>)| #[trigger] t.contains_key(key) && t[key] == x;
        assert(rpath(*s[p]@[i]) == PathKey::Static(p@)); assert(rpath(*t[key]) == PathKey::Dynamic(key.0));
    }
    assert forall|p1: String, i1: String, p2: String, i2: String| #[trigger] static_has(s, p1, i1, x) && #[trigger] static_has(s, p2, i2, x) implies p1 == p2 && i1 == i2 by {
        assert(rid(*s[p1]@[i1]) == i1@ && rpath(*s[p1]@[i1]) == PathKey::Static(p1@));
        assert(rid(*s[p2]@[i2]) == i2@ && rpath(*s[p2]@[i2]) == PathKey::Static(p2@));
    }
    assert forall|k1: (Seq<char>, Seq<char>), k2: (Seq<char>, Seq<char>)| #[trigger] t.contains_key(k1) && t[k1] == x && #[trigger] t.contains_key(k2) && t[k2] == x implies k1 == k2 by {
        assert(rid(*t[k1]) == k1.1 && rpath(*t[k1]) == PathKey::Dynamic(k1.0)); assert(rid(*t[k2]) == k2.1 && rpath(*t[k2]) == PathKey::Dynamic(k2.0));
    }
}
impl<T> Router<T> {
    // the other two ways to make an empty router: same empty state, with the given / the default configuration
    //@@ fn src/router/mod.rs :: impl <T>Router<T> / fn from_config -> r
    //@| ensures r.wf(), r.routes@.len() == 0, forall|x: RouteRef<T>| !r.live(x), *r.config == config,
    //@| entry broadcast use group_hash_axioms; broadcast use axiom_string_key_model;
    // R7: `impl Default for Router<T>` verified as an inherent method
    //@@ fn src/router/mod.rs :: impl <T>DefaultforRouter<T> / fn default -> r
    //@| ensures r.wf(), r.routes@.len() == 0, forall|x: RouteRef<T>| !r.live(x), *r.config == default_config(),
    //@| entry broadcast use group_hash_axioms; broadcast use axiom_string_key_model;
    // the id table, as it is
    //@@ fn src/router/mod.rs :: impl <T>Router<T> / fn routes -> r
    //@| ensures *r == self.routes,

    //@@ fn src/router/mod.rs :: impl <T>Router<T> / fn from_arc_config -> r
    //@| ensures r.wf(), r.routes@.len() == 0, forall|x: RouteRef<T>| !r.live(x), r.config == config,
    //@| entry broadcast use group_hash_axioms; broadcast use axiom_string_key_model;

    // a rule with a fresh id becomes live; nothing else changes
    //@@ fn src/router/mod.rs :: impl <T>Router<T> / fn insert_route
    //@| requires old(self).wf(), old(self).matcher.cnt() < usize::MAX, forall|x: RouteRef<T>| old(self).live(x) ==> rid(*x) != rid(route),
    //@| ensures final(self).wf(), final(self).config == old(self).config, final(self).matcher.cnt() == old(self).matcher.cnt() + 1, exists|n: RouteRef<T>| *n == route && #[trigger] live_plus(*old(self), *final(self), n),
    //@|     final(self).routes@.len() == old(self).routes@.len() + 1,
    //@| entry broadcast use group_hash_axioms; broadcast use axiom_string_key_model; broadcast use axiom_arc_cloned;
    //@|     let ghost r0 = self.routes@; proof { axiom_string_ext(); lemma_router_uniq(*self); }
    //@| exit proof {
    //@|     let n = arc_route; let key = choose|key: String| key@ == rid(*n) && self.routes@ == r0.insert(key, n);
    //@|     assert(!r0.contains_key(key)) by { if r0.contains_key(key) { assert(old(self).matcher.holds(r0[key])); } }
    //@|     assert forall|k: String| #[trigger] self.routes@.contains_key(k) implies rid(*self.routes@[k]) == k@ && self.matcher.holds(self.routes@[k]) by { if k != key { assert(r0.contains_key(k)); assert(old(self).matcher.holds(r0[k])); } }
    //@|     assert forall|x: RouteRef<T>| #[trigger] self.matcher.holds(x) implies exists|k: String| self.routes@.contains_key(k) && self.routes@[k] == x by {
    //@|         if x == n { assert(self.routes@.contains_key(key) && self.routes@[key] == x); }
    //@|         else { assert(old(self).matcher.holds(x)); let k = choose|k: String| r0.contains_key(k) && r0[k] == x; assert(self.routes@.contains_key(k) && self.routes@[k] == x); }
    //@|     }
    //@|     assert(*n == route && live_plus(*old(self), *self, n));
    //@| }

    // a removed rule is returned by the removal and is no longer live; removing an unknown id changes nothing
    //@@ fn src/router/mod.rs :: impl <T>Router<T> / fn remove -> r
    //@| requires old(self).wf(),
    //@| ensures final(self).wf(),
    //@|     forall|y: RouteRef<T>| #![trigger final(self).live(y)] final(self).live(y) <==> old(self).live(y) && rid(*y) != id@,
    //@|     r matches Some(x) ==> old(self).live(x) && rid(*x) == id@,
    //@|     r is None ==> forall|y: RouteRef<T>| #[trigger] old(self).live(y) ==> rid(*y) != id@,
    //@|     final(self).routes@.len() == old(self).routes@.len() - (if r is Some { 1int } else { 0int }),
    //@| entry broadcast use group_hash_axioms; broadcast use axiom_string_key_model; broadcast use axiom_borrow_str_contains; broadcast use axiom_borrow_str_maps; broadcast use axiom_borrow_str_removed;
    //@|     let ghost r0 = self.routes@; proof { axiom_string_ext(); lemma_router_uniq(*self); }
    //@| exit proof {
    //@|     if exists|key: String| key@ == id@ && r0.contains_key(key) {
    //@|         let key = choose|key: String| key@ == id@ && r0.contains_key(key);
    //@|         assert(self.routes@ == r0.remove(key));
    //@|         assert(old(self).matcher.holds(r0[key]) && rid(*r0[key]) == id@);
    //@|         assert(holds_id(old(self).matcher, id@));
    //@|         assert forall|k: String| #[trigger] self.routes@.contains_key(k) implies rid(*self.routes@[k]) == k@ && self.matcher.holds(self.routes@[k]) by { assert(r0.contains_key(k) && k != key); assert(old(self).matcher.holds(r0[k])); }
    //@|         assert forall|x: RouteRef<T>| #[trigger] self.matcher.holds(x) implies exists|k: String| self.routes@.contains_key(k) && self.routes@[k] == x by {
    //@|             assert(old(self).matcher.holds(x)); let k = choose|k: String| r0.contains_key(k) && r0[k] == x; assert(k != key); assert(self.routes@.contains_key(k) && self.routes@[k] == x);
    //@|         }
    //@|     } else {
    //@|         assert(self.routes@ == r0);
    //@|         assert forall|y: RouteRef<T>| #[trigger] old(self).live(y) implies rid(*y) != id@ by { if rid(*y) == id@ { let k = choose|k: String| r0.contains_key(k) && r0[k] == y; assert(k@ == id@); } }
    //@|     }
    //@| }

    // batch removal: exactly the rules whose id is in the set stop being live
    //@@ fn src/router/mod.rs :: impl <T>Router<T> / fn batch_remove
    //@| requires old(self).wf(),
    //@| ensures final(self).wf(), final(self).config == old(self).config, final(self).matcher.cnt() == old(self).matcher.cnt(), forall|y: RouteRef<T>| #![trigger final(self).live(y)] final(self).live(y) <==> old(self).live(y) && !ids_has(ids@, rid(*y)),
    //@| closure `|id, _|` => `|id: &String, _v: &mut Arc<Route<T>>| -> (b: bool) ensures b == !ids@.contains(*id), *final(_v) == *old(_v)`
    //@| entry broadcast use group_hash_axioms; broadcast use axiom_string_key_model;
    //@|     let ghost r0 = self.routes@; proof { axiom_string_ext(); lemma_router_uniq(*self); }
    //@| exit proof {
    //@|     let r1 = self.routes@;
    //@|     assert forall|k: String| #[trigger] r1.contains_key(k) implies r0.contains_key(k) && r1[k] == r0[k] && !ids@.contains(k) by {}
    //@|     assert forall|k: String| r0.contains_key(k) && !#[trigger] r1.contains_key(k) implies ids@.contains(k) by {}
    //@|     assert forall|k: String| #[trigger] r1.contains_key(k) implies rid(*r1[k]) == k@ && self.matcher.holds(r1[k]) by {
    //@|         assert(old(self).matcher.holds(r0[k])); if ids_has(ids@, k@) { let k2 = choose|k2: String| k2@ == k@ && ids@.contains(k2); assert(k2 == k); }
    //@|     }
    //@|     assert forall|x: RouteRef<T>| #[trigger] self.matcher.holds(x) implies exists|k: String| r1.contains_key(k) && r1[k] == x by {
    //@|         assert(old(self).matcher.holds(x)); let k = choose|k: String| r0.contains_key(k) && r0[k] == x;
    //@|         if !r1.contains_key(k) { assert(ids@.contains(k)); assert(ids_has(ids@, rid(*x))); }
    //@|     }
    //@| }

    // lookup by id: the live rule with that id, if any
    //@@ fn src/router/mod.rs :: impl <T>Router<T> / fn get_route_by_id -> r
    //@| requires self.wf(),
    //@| ensures r matches Some(x) ==> self.live(x) && rid(*x) == id@, r is None ==> forall|y: RouteRef<T>| #[trigger] self.live(y) ==> rid(*y) != id@,
    //@| entry broadcast use group_hash_axioms; broadcast use axiom_string_key_model; broadcast use axiom_borrow_str_contains; broadcast use axiom_borrow_str_maps; broadcast use axiom_arc_cloned;
    //@|     proof { axiom_string_ext(); lemma_router_uniq(*self); }
    //@| exit proof { if vf_ret is None { assert forall|y: RouteRef<T>| #[trigger] self.live(y) implies rid(*y) != id@ by { if rid(*y) == id@ { let k = choose|k: String| self.routes@.contains_key(k) && self.routes@[k] == y; assert(k@ == id@); } } } }

    // cache warm-up (C12) at the Router level: any limit; the live rules, the id table and the matcher's observable behaviour are unchanged;
    // the level counter cannot overflow and both loops terminate
    //@@ fn src/router/mod.rs :: impl <T>Router<T> / fn cache
    //@| requires old(self).wf(),
    //@| ensures final(self).wf(), final(self).routes@ == old(self).routes@, final(self).config == old(self).config, same_store(old(self).matcher, final(self).matcher),
    //@|     forall|x: RouteRef<T>| #![trigger final(self).live(x)] final(self).live(x) <==> old(self).live(x),
    //@| entry broadcast use group_hash_axioms; broadcast use axiom_string_key_model;
    //@| loopbefore 0: let ghost p0 = prev_cache_limit as int;
    //@| loop 0: invariant_except_break retry <= 5,
    //@|     invariant self.matcher.wf(), self.routes@ == old(self).routes@, self.config == old(self).config, same_store(old(self).matcher, self.matcher),
    //@|         forall|x: RouteRef<T>| #![trigger self.matcher.holds(x)] self.matcher.holds(x) <==> old(self).matcher.holds(x),
    //@|         0 <= retry <= 6, prev_cache_limit as int <= p0, level as int + prev_cache_limit as int <= p0 + retry as int, p0 <= i64::MAX,
    //@|     decreases prev_cache_limit as int + (6 - retry as int),
    //@| loop 1: invariant_except_break prev_cache_limit > 0,

    //@@ fn src/router/mod.rs :: impl <T>Router<T> / fn len -> r
    //@| ensures r == self.routes@.len(),
    //@| entry broadcast use group_hash_axioms; broadcast use axiom_string_key_model;
    //@@ fn src/router/mod.rs :: impl <T>Router<T> / fn is_empty -> r
    //@| ensures r == (self.routes@.len() == 0),
    //@| entry broadcast use group_hash_axioms; broadcast use axiom_string_key_model;
}

// ---- change sets (Router::insert, Router::apply_change_set). `IntoRoute` is the crate's trait; here with a specification function
// naming the route an item converts to (the conversion itself, e.g. api::Rule::into_route, is not under contract)
pub trait IntoRoute<T>: Sized {
    spec fn spec_route(self, config: RouterConfig) -> Route<T>;
    fn into_route(self, config: &RouterConfig) -> (r: Route<T>) ensures r == self.spec_route(*config);
}
pub open spec fn routes_of<T: IntoRoute<T>>(items: Seq<T>, config: RouterConfig) -> Seq<Route<T>> { Seq::new(items.len(), |i: int| items[i].spec_route(config)) }
pub open spec fn in_ids<T>(rs: Seq<Route<T>>, id: Seq<char>) -> bool { exists|i: int| 0 <= i < rs.len() && rid(#[trigger] rs[i]) == id }
// R8 outlines, ASSUMED contracts (iterator adaptors with closures are outside the subset):
#[verifier::external_body]
pub fn outl_into_routes<T: IntoRoute<T>>(updated: Vec<T>, config: &RouterConfig) -> (r: Vec<Route<T>>)
    ensures r@ == routes_of(updated@, *config),
{ /* verbatim: updated .into_iter() .map(|item| item.into_route(self.config.as_ref())) .collect::<Vec<Route<T>>>() */ unimplemented!() }
#[verifier::external_body]
pub fn outl_extend_ids<T>(removed: &mut HashSet<String>, routes: &Vec<Route<T>>)
    ensures forall|k: String| #[trigger] final(removed)@.contains(k) <==> old(removed)@.contains(k) || in_ids(routes@, k@),
{ /* verbatim: removed.extend(updated_route.iter().map(|item| item.id().to_string())); */ unimplemented!() }
#[verifier::external_body]
pub fn outl_arc_config<'a>(c: &'a Arc<RouterConfig>) -> (r: &'a RouterConfig) ensures *r == **c { /* verbatim: self.config.as_ref() */ c.as_ref() }
pub open spec fn cfg_of(c: Arc<RouterConfig>) -> RouterConfig { *c }
pub open spec fn has_route<T>(r: Router<T>, rt: Route<T>) -> bool { exists|y: RouteRef<T>| #[trigger] r.live(y) && *y == rt }
pub open spec fn cs_routes<T: IntoRoute<T>>(updated: Seq<T>, added: Seq<T>, config: RouterConfig) -> Seq<Route<T>> { routes_of(updated, config) + routes_of(added, config) }
// ids deleted by a change set: the explicit removals plus the ids of the updated rules
pub open spec fn cs_gone<T: IntoRoute<T>>(removed: Set<String>, updated: Seq<T>, config: RouterConfig, id: Seq<char>) -> bool {
    ids_has(removed, id) || in_ids(routes_of(updated, config), id)
}
// ASSUMED (trusted, listed): every sequence of characters is the content of some String
#[verifier::external_body] pub proof fn axiom_string_exists(s: Seq<char>) ensures exists|k: String| k@ == s {}
// the rules that survive the removal phase of a change set
pub open spec fn survives<T: IntoRoute<T>>(o: Router<T>, removed: Set<String>, updated: Seq<T>, y: RouteRef<T>) -> bool { o.live(y) && !cs_gone(removed, updated, *o.config, rid(*y)) }
impl<T: IntoRoute<T>> Router<T> {
    //@@ fn src/router/mod.rs :: impl <T>Router<T> where T: IntoRoute<T>, / fn insert
    //@| requires old(self).wf(), old(self).matcher.cnt() < usize::MAX, forall|x: RouteRef<T>| old(self).live(x) ==> rid(*x) != rid(item.spec_route(*old(self).config)),
    //@| ensures final(self).wf(), final(self).config == old(self).config, final(self).matcher.cnt() == old(self).matcher.cnt() + 1, exists|n: RouteRef<T>| *n == item.spec_route(*old(self).config) && #[trigger] live_plus(*old(self), *final(self), n),
    //@|     final(self).routes@.len() == old(self).routes@.len() + 1,
    //@| outline `self.config.as_ref()` => `outl_arc_config(&self.config)`

    // a change set: delete `removed` and the ids of `updated`, then insert the updated and the added rules. "ids consistent" (statement):
    // the ids of updated ++ added are pairwise distinct, and an added id is not live unless it is also removed.
    //@@ fn src/router/mod.rs :: impl <T>Router<T> where T: IntoRoute<T>, / fn apply_change_set
    //@| requires old(self).wf(), old(self).matcher.cnt() + updated@.len() + added@.len() < usize::MAX,
    //@|     forall|i: int, j: int| 0 <= i < j < updated@.len() + added@.len() ==> rid(#[trigger] cs_routes(updated@, added@, *old(self).config)[i]) != rid(#[trigger] cs_routes(updated@, added@, *old(self).config)[j]),
    //@|     forall|i: int, x: RouteRef<T>| 0 <= i < added@.len() && #[trigger] old(self).live(x) && rid(*x) == rid(#[trigger] added@[i].spec_route(*old(self).config)) ==> ids_has(removed@, rid(*x)),
    //@| ensures final(self).wf(), final(self).config == old(self).config,
    //@|     // exactly: the survivors (same Arcs), plus one live rule per updated / added item carrying exactly the converted route
    //@|     forall|y: RouteRef<T>| survives(*old(self), removed@, updated@, y) ==> #[trigger] final(self).live(y),
    //@|     forall|y: RouteRef<T>| #[trigger] final(self).live(y) ==> survives(*old(self), removed@, updated@, y) || exists|i: int| 0 <= i < updated@.len() + added@.len() && *y == #[trigger] cs_routes(updated@, added@, *old(self).config)[i],
    //@|     forall|i: int| 0 <= i < updated@.len() + added@.len() ==> has_route(*final(self), #[trigger] cs_routes(updated@, added@, *old(self).config)[i]),
    //@| outline `updated .into_iter() .map(|item| item.into_route(self.config.as_ref())) .collect::<Vec<Route<T>>>()` => `outl_into_routes(updated, outl_arc_config(&self.config))`
    //@| outline `removed.extend(updated_route.iter().map(|item| item.id().to_string()));` => `outl_extend_ids(&mut removed, &updated_route);`
    //@| attr #[verifier::loop_isolation(false)]
    //@| entry broadcast use group_hash_axioms; broadcast use axiom_string_key_model;
    //@|     let ghost cfg = cfg_of(self.config); let ghost uv = routes_of(updated@, cfg); let ghost av = routes_of(added@, cfg); let ghost all = cs_routes(updated@, added@, cfg); let ghost rm0 = removed@; let ghost upd0 = updated@; let ghost add0 = added@; let ghost c0 = self.config;
    //@|     let ghost mut ins: Seq<RouteRef<T>> = Seq::empty();
    //@|     proof { axiom_string_ext(); assert(all =~= uv + av); }
    //@| after `self.batch_remove(&removed);`: let ghost r1 = *self;
    //@|     proof {
    //@|         assert forall|y: RouteRef<T>| #![trigger r1.live(y)] r1.live(y) <==> survives(*old(self), rm0, upd0, y) by {
    //@|             let id = rid(*y);
    //@|             if ids_has(removed@, id) { let k = choose|k: String| k@ == id && removed@.contains(k); if rm0.contains(k) { assert(ids_has(rm0, id)); } }
    //@|             if ids_has(rm0, id) { let k = choose|k: String| k@ == id && rm0.contains(k); assert(removed@.contains(k)); }
    //@|             if in_ids(uv, id) { axiom_string_exists(id); let k = choose|k: String| k@ == id; assert(removed@.contains(k)); assert(ids_has(removed@, id)); }
    //@|         }
    //@|     }
    //@| forlabel 0: it
    //@| loop 0: invariant iter_ok(it.history@, it.index@, it.snapshot@.remaining(), uv), self.wf(), self.config == old(self).config, self.matcher.cnt() == r1.matcher.cnt() + it.index@,
    //@|     ins.len() == it.index@, forall|i: int| 0 <= i < ins.len() ==> *#[trigger] ins[i] == all[i],
    //@|     forall|y: RouteRef<T>| #![trigger self.live(y)] self.live(y) <==> r1.live(y) || ins.contains(y),
    //@| loophead 0: let ghost s0 = *self; let ghost k = it.index@ as int; let ghost ins0 = ins;
    //@|     proof { assert(item == uv[k]); assert(all[k] == uv[k]);
    //@|         assert forall|x: RouteRef<T>| self.live(x) implies rid(*x) != rid(item) by {
    //@|             if r1.live(x) { if rid(*x) == rid(item) { assert(in_ids(uv, rid(*x))); assert(cs_gone(rm0, upd0, cfg, rid(*x))); } }
    //@|             else { let i = choose|i: int| 0 <= i < ins.len() && ins[i] == x; assert(*x == all[i]); }
    //@|         } }
    //@| looptail 0: proof {
    //@|     let n = choose|n: RouteRef<T>| *n == uv[k] && #[trigger] live_plus(s0, *self, n);
    //@|     ins = ins.push(n);
    //@|     assert forall|y: RouteRef<T>| #![trigger self.live(y)] self.live(y) <==> r1.live(y) || ins.contains(y) by {
    //@|         assert(self.live(y) <==> s0.live(y) || y == n);
    //@|         assert(s0.live(y) <==> r1.live(y) || ins0.contains(y));
    //@|         if ins.contains(y) { let i = choose|i: int| 0 <= i < ins.len() && ins[i] == y; if i < k { assert(ins0[i] == y); assert(ins0.contains(y)); } }
    //@|         if ins0.contains(y) { let i = choose|i: int| 0 <= i < ins0.len() && ins0[i] == y; assert(ins[i] == y); }
    //@|         assert(ins[k] == n);
    //@|     }
    //@| }
    //@| forlabel 1: it2
    //@| loopbefore 1: let ghost ul = uv.len() as int;
    //@| loop 1: invariant iter_ok(it2.history@, it2.index@, it2.snapshot@.remaining(), added@), self.wf(), self.config == old(self).config, self.matcher.cnt() == r1.matcher.cnt() + ul + it2.index@, ul == uv.len(),
    //@|     ins.len() == ul + it2.index@, forall|i: int| 0 <= i < ins.len() ==> *#[trigger] ins[i] == all[i],
    //@|     forall|y: RouteRef<T>| #![trigger self.live(y)] self.live(y) <==> r1.live(y) || ins.contains(y),
    //@| loophead 1: let ghost s0 = *self; let ghost k = it2.index@ as int; let ghost ins0 = ins;
    //@|     proof { assert(item == added@[k]); assert(all[ul + k] == av[k]); assert(av[k] == item.spec_route(cfg));
    //@|         assert forall|x: RouteRef<T>| self.live(x) implies rid(*x) != rid(item.spec_route(cfg)) by {
    //@|             if r1.live(x) { if rid(*x) == rid(item.spec_route(cfg)) { assert(old(self).live(x)); assert(ids_has(rm0, rid(*x))); assert(cs_gone(rm0, upd0, cfg, rid(*x))); } }
    //@|             else { let i = choose|i: int| 0 <= i < ins.len() && ins[i] == x; assert(*x == all[i]); }
    //@|         } }
    //@| looptail 1: proof {
    //@|     let n = choose|n: RouteRef<T>| *n == av[k] && #[trigger] live_plus(s0, *self, n);
    //@|     ins = ins.push(n);
    //@|     let kk = ul + k;
    //@|     assert forall|y: RouteRef<T>| #![trigger self.live(y)] self.live(y) <==> r1.live(y) || ins.contains(y) by {
    //@|         assert(self.live(y) <==> s0.live(y) || y == n);
    //@|         assert(s0.live(y) <==> r1.live(y) || ins0.contains(y));
    //@|         if ins.contains(y) { let i = choose|i: int| 0 <= i < ins.len() && ins[i] == y; if i < kk { assert(ins0[i] == y); assert(ins0.contains(y)); } }
    //@|         if ins0.contains(y) { let i = choose|i: int| 0 <= i < ins0.len() && ins0[i] == y; assert(ins[i] == y); }
    //@|         assert(ins[kk] == n);
    //@|     }
    //@| }
    //@| exit proof {
    //@|     assert forall|y: RouteRef<T>| #[trigger] self.live(y) implies survives(*old(self), rm0, upd0, y) || exists|i: int| 0 <= i < updated@.len() + added@.len() && *y == #[trigger] all[i] by {
    //@|         if !r1.live(y) { let i = choose|i: int| 0 <= i < ins.len() && ins[i] == y; assert(*y == all[i]); }
    //@|     }
    //@|     assert(ins.len() == upd0.len() + add0.len()); assert(all == cs_routes(upd0, add0, *c0));
    //@|     assert forall|i: int| 0 <= i < upd0.len() + add0.len() implies has_route(*self, #[trigger] cs_routes(upd0, add0, *c0)[i]) by { let y = ins[i]; assert(ins.contains(y)); assert(self.live(y) && *y == all[i]); }
    //@| }
}
//@@ unrename SchemeMatcher
// ---- deriving an updated router from a shared one (C02 "clones are isolated", C19 project-level analyses): RuleChangeSet::update_existing_router
// clones the shared router and applies the change set to the CLONE — added as added, updated as updated. api::Rule is opaque here (its conversion
// to a route is the named function spec_route); the derived Clone of Router is ASSUMED to yield an equal value (the shared router itself cannot
// change: it is only read through the Arc).
#[verifier::external_body] pub struct Rule { x: u8 }
impl IntoRoute<Rule> for Rule {
    uninterp spec fn spec_route(self, config: RouterConfig) -> Route<Rule>;
    #[verifier::external_body] fn into_route(self, config: &RouterConfig) -> (r: Route<Rule>) { unimplemented!() }
}
impl<T> Clone for Router<T> { #[verifier::external_body] fn clone(&self) -> (r: Self) ensures r == *self { unimplemented!() } }
pub assume_specification<T: ?Sized, A: std::alloc::Allocator> [<Arc<T, A> as std::convert::AsRef<T>>::as_ref] (a: &Arc<T, A>) -> (r: &T) ensures r == &**a;
//@@ item src/api/rules_message.rs :: struct RuleChangeSet
impl RuleChangeSet {
    //@@ fn src/api/rules_message.rs :: impl RuleChangeSet / fn update_existing_router -> r
    //@| requires existing_router.wf(), existing_router.matcher.cnt() + self.updated@.len() + self.added@.len() < usize::MAX,
    //@|     forall|i: int, j: int| 0 <= i < j < self.updated@.len() + self.added@.len() ==> rid(#[trigger] cs_routes(self.updated@, self.added@, *existing_router.config)[i]) != rid(#[trigger] cs_routes(self.updated@, self.added@, *existing_router.config)[j]),
    //@|     forall|i: int, x: RouteRef<Rule>| 0 <= i < self.added@.len() && #[trigger] existing_router.live(x) && rid(*x) == rid(#[trigger] self.added@[i].spec_route(*existing_router.config)) ==> ids_has(self.deleted@, rid(*x)),
    //@| ensures r.wf(), r.config == existing_router.config,
    //@|     forall|y: RouteRef<Rule>| survives(*existing_router, self.deleted@, self.updated@, y) ==> #[trigger] r.live(y),
    //@|     forall|y: RouteRef<Rule>| #[trigger] r.live(y) ==> survives(*existing_router, self.deleted@, self.updated@, y) || exists|i: int| 0 <= i < self.updated@.len() + self.added@.len() && *y == #[trigger] cs_routes(self.updated@, self.added@, *existing_router.config)[i],
    //@|     forall|i: int| 0 <= i < self.updated@.len() + self.added@.len() ==> has_route(r, #[trigger] cs_routes(self.updated@, self.added@, *existing_router.config)[i]),
}

//@@ strlits
} // verus!
fn main() {}

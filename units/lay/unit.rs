//@@ include ../common/prelude.rs
// Unit `lay` — mutators of the router layers and of Router itself (C02): every insert / remove / batch_remove keeps the layer invariant
// and changes the set of stored routes by the insertion / removal law; a removed route is returned by the removal.
// Each layer is verified against the CONTRACT of the layer below (shim with the same contract shape as the one verified here).
use std::sync::Arc;
use vstd::std_specs::hash::*;
use std::borrow::Borrow;
use std::hash::{Hash, BuildHasher};
verus! {

// ---- ASSUMED (trusted, listed): String keys obey the hash-table key model; a String is determined by its characters; a &str key finds
// exactly the String key with the same characters (Borrow<str> for String); cloning an Arc yields an equal value
#[verifier::external_body] pub broadcast proof fn axiom_string_key_model() ensures #[trigger] obeys_key_model::<String>() {}
#[verifier::external_body] pub proof fn axiom_string_ext() ensures forall|a: String, b: String| #[trigger] a@ == #[trigger] b@ ==> a == b {}
#[verifier::external_body]
pub broadcast proof fn axiom_borrow_str_contains<V>(m: Map<String, V>, k: &str)
    ensures #[trigger] contains_borrowed_key::<String, V, str>(m, k) == (exists|key: String| key@ == k@ && m.contains_key(key)),
{}
#[verifier::external_body]
pub broadcast proof fn axiom_borrow_str_maps<V>(m: Map<String, V>, k: &str, v: V)
    ensures #[trigger] maps_borrowed_key_to_value::<String, V, str>(m, k, v) == (exists|key: String| key@ == k@ && m.contains_key(key) && m[key] == v),
{}
#[verifier::external_body]
pub broadcast proof fn axiom_borrow_str_removed<V>(m0: Map<String, V>, m1: Map<String, V>, k: &str)
    ensures #[trigger] borrowed_key_removed::<String, V, str>(m0, m1, k) == (exists|key: String| key@ == k@ && m1 == m0.remove(key)),
{}
#[verifier::external_body]
pub broadcast proof fn axiom_arc_cloned<T>(a: Arc<T>, b: Arc<T>) requires #[trigger] cloned::<Arc<T>>(a, b) ensures a == b {}
// ASSUMED specification of HashMap::get_mut (vstd has none): the returned &mut is the entry's value; the map afterwards is the old map
// with that entry's value replaced by the final value behind the reference
pub uninterp spec fn borrowed_upd<K, V, Q: ?Sized>(m0: Map<K, V>, m1: Map<K, V>, k: &Q, v: V) -> bool;
pub assume_specification<'a, K: Borrow<Q> + Eq + Hash, V, S: BuildHasher, A: std::alloc::Allocator, Q: Hash + Eq + ?Sized> [HashMap::<K, V, S, A>::get_mut::<Q>] (m: &'a mut HashMap<K, V, S, A>, k: &Q) -> (r: Option<&'a mut V>)
    ensures match r {
        Some(v) => contains_borrowed_key(old(m)@, k) && maps_borrowed_key_to_value(old(m)@, k, *v) && borrowed_upd(old(m)@, final(m)@, k, *final(v)),
        None => !contains_borrowed_key(old(m)@, k) && final(m)@ == old(m)@,
    };
#[verifier::external_body]
pub broadcast proof fn axiom_borrow_str_upd<V>(m0: Map<String, V>, m1: Map<String, V>, k: &str, v: V)
    ensures #[trigger] borrowed_upd::<String, V, str>(m0, m1, k, v) == (exists|key: String| key@ == k@ && m0.contains_key(key) && m1 == m0.insert(key, v)),
{}

#[verifier::external_body]
pub broadcast proof fn axiom_borrow_string_upd<V>(m0: Map<String, V>, m1: Map<String, V>, k: &String, v: V)
    ensures #[trigger] borrowed_upd::<String, V, String>(m0, m1, k, v) == (m0.contains_key(*k) && m1 == m0.insert(*k, v)),
{}
// ---- sums of a per-bucket measure over a finite map (bookkeeping of `count`)
pub open spec fn msum<K, S>(m: Map<K, S>, f: spec_fn(S) -> nat) -> nat
    decreases m.dom().len()
{
    if m.dom().len() == 0 { 0 } else { let k = m.dom().choose(); f(m[k]) + msum(m.remove(k), f) }
}
pub proof fn lemma_msum_remove<K, S>(m: Map<K, S>, f: spec_fn(S) -> nat, k: K)
    requires m.contains_key(k),
    ensures msum(m, f) == f(m[k]) + msum(m.remove(k), f),
    decreases m.dom().len(),
{
    let c = m.dom().choose();
    if m.dom().len() == 0 { assert(false); }
    if c != k {
        assert(m.dom().contains(c));
        lemma_msum_remove(m.remove(c), f, k);
        lemma_msum_remove(m.remove(k), f, c);
        assert(m.remove(c).remove(k) =~= m.remove(k).remove(c));
    }
}
pub proof fn lemma_msum_insert<K, S>(m: Map<K, S>, f: spec_fn(S) -> nat, k: K, v: S)
    ensures msum(m.insert(k, v), f) == f(v) + msum(m.remove(k), f),
{
    lemma_msum_remove(m.insert(k, v), f, k);
    assert(m.insert(k, v).remove(k) =~= m.remove(k));
}
pub proof fn lemma_msum_fresh<K, S>(m: Map<K, S>, f: spec_fn(S) -> nat, k: K, v: S)
    requires !m.contains_key(k),
    ensures msum(m.insert(k, v), f) == f(v) + msum(m, f),
{
    lemma_msum_insert(m, f, k, v);
    assert(m.remove(k) =~= m);
}

pub proof fn lemma_msum_sub<K, S>(m0: Map<K, S>, m1: Map<K, S>, f: spec_fn(S) -> nat)
    requires m1.dom().subset_of(m0.dom()),
        forall|k: K| m1.contains_key(k) ==> f(#[trigger] m1[k]) == f(m0[k]),
        forall|k: K| m0.contains_key(k) && !m1.contains_key(k) ==> f(#[trigger] m0[k]) == 0,
    ensures msum(m1, f) == msum(m0, f),
    decreases m0.dom().len(),
{
    if m0.dom().len() == 0 {
        assert(m1.dom() =~= Set::<K>::empty());
        assert(m1.dom().len() == 0);
    } else {
        let k = m0.dom().choose();
        assert(m0.contains_key(k));
        lemma_msum_remove(m0, f, k);
        if m1.contains_key(k) {
            lemma_msum_remove(m1, f, k);
            lemma_msum_sub(m0.remove(k), m1.remove(k), f);
        } else {
            lemma_msum_sub(m0.remove(k), m1, f);
        }
    }
}
// ASSUMED specification of HashMap::retain (vstd has none): the predicate is applied once to every entry with the entry's value behind the
// &mut; entries for which it returns false are removed, the others keep the value the predicate left behind the reference
pub assume_specification<K, V, S, A: std::alloc::Allocator, F: FnMut(&K, &mut V) -> bool> [HashMap::<K, V, S, A>::retain] (m: &mut HashMap<K, V, S, A>, f: F)
    requires forall|k: &K, v: &mut V| old(m)@.contains_key(*k) && *v == old(m)@[*k] ==> #[trigger] f.requires((k, v)),
    ensures
        forall|k: K| #[trigger] final(m)@.contains_key(k) ==> old(m)@.contains_key(k) && exists|v: &mut V| *v == old(m)@[k] && *final(v) == final(m)@[k] && #[trigger] f.ensures((&k, v), true),
        forall|k: K| old(m)@.contains_key(k) && !#[trigger] final(m)@.contains_key(k) ==> exists|v: &mut V| *v == old(m)@[k] && #[trigger] f.ensures((&k, v), false);

// ---- SHIMS: Route and RouterConfig are opaque here; the accessors name the trigger fields of a route
//@@ item src/router_config.rs :: struct RouterConfig
#[verifier::external_body] #[verifier::accept_recursive_types(T)] pub struct Route<T> { h: std::marker::PhantomData<T> }
pub type RouteRef<T> = Arc<Route<T>>;
pub uninterp spec fn rid<T>(r: Route<T>) -> Seq<char>;
pub uninterp spec fn rscheme<T>(r: Route<T>) -> Option<Seq<char>>;
pub open spec fn rscheme_of<T>(x: RouteRef<T>) -> Option<Seq<char>> { rscheme(*x) }
pub open spec fn opt_chars(o: Option<&str>) -> Option<Seq<char>> { match o { Some(s) => Some(s@), None => None } }
impl<T> Route<T> {
    #[verifier::external_body] pub fn id(&self) -> (r: &str) ensures r@ == rid(*self) { unimplemented!() }
    #[verifier::external_body] pub fn scheme(&self) -> (r: Option<&str>) ensures opt_chars(r) == rscheme(*self) { unimplemented!() }
}
pub open spec fn ids_has(ids: Set<String>, id: Seq<char>) -> bool { exists|k: String| k@ == id && ids.contains(k) }
// removal laws shared by all layers, over the "stored routes" predicate of a layer
pub open spec fn removed_law<T>(h0: spec_fn(RouteRef<T>) -> bool, h1: spec_fn(RouteRef<T>) -> bool, id: Seq<char>, r: Option<RouteRef<T>>) -> bool {
    &&& forall|y: RouteRef<T>| #[trigger] h1(y) <==> h0(y) && rid(*y) != id
    &&& r matches Some(x) ==> h0(x) && rid(*x) == id
    &&& r is None ==> forall|y: RouteRef<T>| #[trigger] h0(y) ==> rid(*y) != id
}
pub open spec fn batch_law<T>(h0: spec_fn(RouteRef<T>) -> bool, h1: spec_fn(RouteRef<T>) -> bool, ids: Set<String>) -> bool {
    forall|y: RouteRef<T>| #[trigger] h1(y) <==> h0(y) && !ids_has(ids, rid(*y))
}
pub open spec fn uniq_ids<T>(h: spec_fn(RouteRef<T>) -> bool) -> bool {
    forall|x: RouteRef<T>, y: RouteRef<T>| #[trigger] h(x) && #[trigger] h(y) && rid(*x) == rid(*y) ==> x == y
}
// the contract of a lower layer (the same contract is verified on that layer when it is itself under contract in this unit)
macro_rules! sub_store_shim {
    ($name:ident) => {
        verus! {
        #[verifier::external_body] #[verifier::accept_recursive_types(T)] pub struct $name<T> { h: std::marker::PhantomData<T> }
        impl<T> $name<T> {
            pub uninterp spec fn wf(&self) -> bool;
            pub uninterp spec fn holds(&self, x: RouteRef<T>) -> bool;
            pub uninterp spec fn cnt(&self) -> nat;
            pub open spec fn hs(&self) -> spec_fn(RouteRef<T>) -> bool { |x: RouteRef<T>| self.holds(x) }
            #[verifier::external_body]
            pub fn new(config: Arc<RouterConfig>) -> (r: Self) ensures r.wf(), r.cnt() == 0, forall|x: RouteRef<T>| !r.holds(x) { unimplemented!() }
            #[verifier::external_body]
            pub fn insert(&mut self, route: RouteRef<T>)
                requires old(self).wf(), old(self).cnt() < usize::MAX, forall|x: RouteRef<T>| old(self).holds(x) ==> rid(*x) != rid(*route),
                ensures final(self).wf(), final(self).cnt() == old(self).cnt() + 1, forall|x: RouteRef<T>| final(self).holds(x) <==> old(self).holds(x) || x == route,
            { unimplemented!() }
            #[verifier::external_body]
            pub fn remove(&mut self, id: &str) -> (r: Option<RouteRef<T>>)
                requires old(self).wf(),
                ensures final(self).wf(), removed_law(old(self).hs(), final(self).hs(), id@, r),
                    r is Some ==> old(self).cnt() >= 1 && final(self).cnt() == old(self).cnt() - 1, r is None ==> final(self).cnt() == old(self).cnt(),
            { unimplemented!() }
            #[verifier::external_body]
            pub fn batch_remove(&mut self, ids: &HashSet<String>) -> (r: bool)
                requires old(self).wf(),
                ensures final(self).wf(), batch_law(old(self).hs(), final(self).hs(), ids@), final(self).cnt() == old(self).cnt(),
            { unimplemented!() }
            #[verifier::external_body]
            pub fn len(&self) -> (r: usize) ensures r == self.cnt() { unimplemented!() }
            #[verifier::external_body]
            pub fn is_empty(&self) -> (r: bool) ensures r == (self.cnt() == 0) { unimplemented!() }
            // consequences of the lower layer's invariant (each is part of / follows from wf() where that layer is verified)
            #[verifier::external_body]
            pub proof fn lemma_wf(&self) requires self.wf() ensures uniq_ids(self.hs()), self.cnt() == 0 ==> forall|x: RouteRef<T>| !self.holds(x), self.cnt() <= usize::MAX {}
        }
        }
    };
}
sub_store_shim!(Sub);
// what remove(id) / batch_remove(ids) do to one bucket (the lower layer's contract, as a relation)
pub open spec fn sub_removed<T>(v0: Sub<T>, v1: Sub<T>, id: Seq<char>, r: Option<RouteRef<T>>) -> bool {
    v1.wf() && removed_law(v0.hs(), v1.hs(), id, r) && (r is Some ==> v0.cnt() >= 1 && v1.cnt() == v0.cnt() - 1) && (r is None ==> v1.cnt() == v0.cnt())
}
pub open spec fn sub_batched<T>(v0: Sub<T>, v1: Sub<T>, ids: Set<String>) -> bool {
    v1.wf() && batch_law(v0.hs(), v1.hs(), ids) && v1.cnt() == v0.cnt()
}
// R8 outline, ASSUMED contract (trusted, listed): the statement
//     self.schemes.retain(|_, matcher| { if let Some(value) = matcher.remove(id) { removed = Some(value); } !matcher.is_empty() });
// assigns a captured local inside the closure, which Verus does not support. Summary: remove(id) is applied to every bucket, only a bucket
// that is empty afterwards is dropped, `removed` receives a route returned by one of these calls (if any), and — ids being unique across
// buckets — the total of the buckets' counts drops by one exactly when a route was removed.
#[verifier::external_body]
pub fn outl_retain_remove<T>(m: &mut HashMap<String, Sub<T>>, id: &str, removed: &mut Option<RouteRef<T>>)
    requires forall|k: String| old(m)@.contains_key(k) ==> (#[trigger] old(m)@[k]).wf(), *old(removed) is None,
        forall|k1: String, k2: String, x: RouteRef<T>, y: RouteRef<T>| old(m)@.contains_key(k1) && old(m)@.contains_key(k2) && #[trigger] old(m)@[k1].holds(x) && #[trigger] old(m)@[k2].holds(y) && rid(*x) == rid(*y) ==> x == y,
    ensures
        forall|k: String| #[trigger] final(m)@.contains_key(k) ==> old(m)@.contains_key(k) && exists|r: Option<RouteRef<T>>| #[trigger] sub_removed(old(m)@[k], final(m)@[k], id@, r),
        forall|k: String| old(m)@.contains_key(k) && !#[trigger] final(m)@.contains_key(k) ==> exists|v1: Sub<T>, r: Option<RouteRef<T>>| #[trigger] sub_removed(old(m)@[k], v1, id@, r) && v1.cnt() == 0,
        *final(removed) matches Some(x) ==> rid(*x) == id@ && exists|k: String| old(m)@.contains_key(k) && #[trigger] old(m)@[k].holds(x),
        *final(removed) is None ==> forall|k: String, y: RouteRef<T>| old(m)@.contains_key(k) && #[trigger] old(m)@[k].holds(y) ==> rid(*y) != id@,
        msum(final(m)@, cnt_sub::<T>()) + (if *final(removed) is Some { 1nat } else { 0nat }) == msum(old(m)@, cnt_sub::<T>()),
{
    /* verbatim: self.schemes.retain(|_, matcher| { if let Some(value) = matcher.remove(id) { removed = Some(value); } !matcher.is_empty() }); */
    unimplemented!()
}

// ================================================================ scheme layer
//@@ rename HostMatcher Sub
//@@ item src/router/request_matcher/scheme.rs :: struct SchemeMatcher
pub open spec fn cnt_sub<T>() -> spec_fn(Sub<T>) -> nat { |s: Sub<T>| s.cnt() }
impl<T> SchemeMatcher<T> {
    pub open spec fn holds(&self, x: RouteRef<T>) -> bool {
        self.any_scheme.holds(x) || exists|k: String| self.schemes@.contains_key(k) && #[trigger] self.schemes@[k].holds(x)
    }
    pub open spec fn hs(&self) -> spec_fn(RouteRef<T>) -> bool { |x: RouteRef<T>| self.holds(x) }
    pub open spec fn cnt(&self) -> nat { self.count as nat }
    pub open spec fn wf(&self) -> bool {
        &&& self.any_scheme.wf()
        &&& forall|k: String| self.schemes@.contains_key(k) ==> (#[trigger] self.schemes@[k]).wf() && k@.len() > 0
        &&& self.count == self.any_scheme.cnt() + msum(self.schemes@, cnt_sub::<T>())
        &&& uniq_ids(self.hs())
        // bucket-key consistency: a route filed under scheme k has scheme k; a route filed under "any" has no (or the empty) scheme
        &&& forall|k: String, x: RouteRef<T>| self.schemes@.contains_key(k) && #[trigger] self.schemes@[k].holds(x) ==> rscheme(*x) == Some(k@)
        &&& forall|x: RouteRef<T>| #[trigger] self.any_scheme.holds(x) ==> (rscheme(*x) matches Some(s) ==> s.len() == 0)
    }
    //@@ fn src/router/request_matcher/scheme.rs :: impl <T>SchemeMatcher<T> / fn new -> r
    //@| ensures r.wf(), r.cnt() == 0, forall|x: RouteRef<T>| !r.holds(x),
    //@| entry broadcast use group_hash_axioms; broadcast use axiom_string_key_model;

    //@@ fn src/router/request_matcher/scheme.rs :: impl <T>SchemeMatcher<T> / fn insert
    //@| requires old(self).wf(), old(self).cnt() < usize::MAX, forall|x: RouteRef<T>| old(self).holds(x) ==> rid(*x) != rid(*route),
    //@| ensures final(self).wf(), final(self).cnt() == old(self).cnt() + 1, forall|x: RouteRef<T>| final(self).holds(x) <==> old(self).holds(x) || x == route,
    //@| entry broadcast use group_hash_axioms; broadcast use axiom_string_key_model; broadcast use axiom_borrow_str_contains; broadcast use axiom_borrow_str_maps; broadcast use axiom_borrow_str_upd;
    //@|     let ghost m0 = self.schemes@; let ghost a0 = self.any_scheme; let ghost f = cnt_sub::<T>(); let ghost rt = route; let ghost rsc = rscheme_of(rt);
    //@|     proof { axiom_string_ext(); self.any_scheme.lemma_wf(); lit_empty(); }
    //@| exit proof {
    //@|     assert forall|x: RouteRef<T>, y: RouteRef<T>| #[trigger] self.hs()(x) && #[trigger] self.hs()(y) && rid(*x) == rid(*y) implies x == y by {
    //@|         assert(self.holds(x) && self.holds(y));
    //@|         if x != route && y != route { assert(old(self).hs()(x) && old(self).hs()(y)); }
    //@|         else if x != route { assert(old(self).holds(x)); } else if y != route { assert(old(self).holds(y)); }
    //@|     }
    //@| }
    //@| exit proof { if rsc is None || rsc.unwrap().len() == 0 {
    //@|     assert(self.schemes@ == m0);
    //@|     assert forall|k: String, x: RouteRef<T>| self.schemes@.contains_key(k) && #[trigger] self.schemes@[k].holds(x) implies rscheme(*x) == Some(k@) by { assert(m0[k].holds(x)); }
    //@|     assert forall|x: RouteRef<T>| #[trigger] self.any_scheme.holds(x) implies (rscheme(*x) matches Some(s) ==> s.len() == 0) by { if x != rt { assert(a0.holds(x)); } }
    //@|     assert forall|x: RouteRef<T>| self.holds(x) <==> old(self).holds(x) || x == rt by {
    //@|         if self.holds(x) && !self.any_scheme.holds(x) { let k = choose|k: String| self.schemes@.contains_key(k) && #[trigger] self.schemes@[k].holds(x); assert(m0[k].holds(x)); }
    //@|         if old(self).holds(x) && !a0.holds(x) { let k = choose|k: String| m0.contains_key(k) && #[trigger] m0[k].holds(x); assert(self.schemes@[k].holds(x)); }
    //@|     }
    //@| } }
    //@| after `self.schemes.insert(scheme.to_string(), HostMatcher::new(self.config.clone()));`: proof {
    //@|     let key = choose|key: String| key@ == scheme@ && self.schemes@.contains_key(key);
    //@|     assert(self.schemes@ == m0.insert(key, self.schemes@[key]));
    //@|     lemma_msum_fresh(m0, f, key, self.schemes@[key]);
    //@| }
    //@| before `self.schemes.get_mut(scheme).unwrap().insert(route);`: let ghost m1 = self.schemes@;
    //@|     proof {
    //@|         let key = choose|key: String| key@ == scheme@ && m1.contains_key(key);
    //@|         assert(m1[key].wf());
    //@|         m1[key].lemma_wf();
    //@|         lemma_msum_remove(m1, f, key);
    //@|         assert forall|x: RouteRef<T>| m1[key].holds(x) implies rid(*x) != rid(*route) by { if m0.contains_key(key) { assert(old(self).holds(x)); } }
    //@|     }
    //@| after `self.schemes.get_mut(scheme).unwrap().insert(route);`: proof {
    //@|     let key = choose|key: String| key@ == scheme@ && m1.contains_key(key);
    //@|     let v = self.schemes@[key];
    //@|     assert(self.schemes@ == m1.insert(key, v));
    //@|     lemma_msum_insert(m1, f, key, v);
    //@|     assert forall|x: RouteRef<T>| self.holds(x) <==> old(self).holds(x) || x == route by {
    //@|         if self.holds(x) && !self.any_scheme.holds(x) {
    //@|             let k = choose|k: String| self.schemes@.contains_key(k) && #[trigger] self.schemes@[k].holds(x);
    //@|             if k != key { assert(m1[k] == self.schemes@[k]); assert(m0.contains_key(k) && m0[k].holds(x)); }
    //@|             else if x != route { assert(m1[key].holds(x)); assert(m0.contains_key(key) && m0[key].holds(x)); }
    //@|         }
    //@|         if old(self).holds(x) && !a0.holds(x) {
    //@|             let k = choose|k: String| m0.contains_key(k) && #[trigger] m0[k].holds(x);
    //@|             assert(self.schemes@.contains_key(k));
    //@|             if k != key { assert(self.schemes@[k] == m0[k]); } else { assert(m1[key] == m0[key]); assert(self.schemes@[key].holds(x)); }
    //@|         }
    //@|         if x == route { assert(self.schemes@[key].holds(x)); }
    //@|     }
    //@|     assert forall|k: String| self.schemes@.contains_key(k) implies (#[trigger] self.schemes@[k]).wf() && k@.len() > 0 by { if k != key { assert(m1.contains_key(k) && m1[k] == self.schemes@[k]); } }
    //@|     assert forall|k: String, x: RouteRef<T>| self.schemes@.contains_key(k) && #[trigger] self.schemes@[k].holds(x) implies rscheme(*x) == Some(k@) by {
    //@|         if k != key { assert(m1[k] == self.schemes@[k]); assert(m0.contains_key(k) && m0[k].holds(x)); }
    //@|         else if x != route { assert(m1[key].holds(x)); assert(m0.contains_key(key) && m0[key].holds(x)); }
    //@|     }
    //@|     assert(self.any_scheme == a0);
    //@| }

    //@@ fn src/router/request_matcher/scheme.rs :: impl <T>SchemeMatcher<T> / fn remove -> r
    //@| requires old(self).wf(),
    //@| ensures final(self).wf(), removed_law(old(self).hs(), final(self).hs(), id@, r),
    //@|     r is Some ==> old(self).cnt() >= 1 && final(self).cnt() == old(self).cnt() - 1, r is None ==> final(self).cnt() == old(self).cnt(),
    //@| outline `self.schemes.retain(|_, matcher| { if let Some(value) = matcher.remove(id) { removed = Some(value); } !matcher.is_empty() });` => `outl_retain_remove(&mut self.schemes, id, &mut removed);`
    //@| entry broadcast use group_hash_axioms; broadcast use axiom_string_key_model;
    //@|     let ghost m0 = self.schemes@; let ghost a0 = self.any_scheme;
    //@|     proof { axiom_string_ext(); a0.lemma_wf(); assert forall|x: RouteRef<T>| a0.holds(x) implies old(self).hs()(x) by { assert(old(self).holds(x)); } }
    //@| before `return removed;`: proof {
    //@|     let x0 = removed.unwrap();
    //@|     assert(self.schemes@ == m0);
    //@|     assert forall|y: RouteRef<T>| #[trigger] self.hs()(y) <==> old(self).hs()(y) && rid(*y) != id@ by {
    //@|         assert(self.hs()(y) == self.holds(y)); assert(old(self).hs()(y) == old(self).holds(y));
    //@|         assert(self.any_scheme.hs()(y) == self.any_scheme.holds(y)); assert(a0.hs()(y) == a0.holds(y));
    //@|         if old(self).holds(y) && !a0.holds(y) && rid(*y) == id@ { assert(old(self).hs()(x0) && old(self).hs()(y)); assert(a0.hs()(x0)); }
    //@|     }
    //@|     assert(old(self).hs()(x0)) by { assert(a0.hs()(x0)); assert(old(self).holds(x0)); }
    //@|     assert forall|x: RouteRef<T>, y: RouteRef<T>| #[trigger] self.hs()(x) && #[trigger] self.hs()(y) && rid(*x) == rid(*y) implies x == y by { assert(old(self).hs()(x) && old(self).hs()(y)); }
    //@|     assert forall|x: RouteRef<T>| #[trigger] self.any_scheme.holds(x) implies (rscheme(*x) matches Some(s) ==> s.len() == 0) by { assert(self.any_scheme.hs()(x)); assert(a0.hs()(x)); }
    //@| }
    //@| before `self.schemes.retain(`: proof {
    //@|     assert(self.any_scheme.cnt() == a0.cnt());
    //@|     assert forall|k1: String, k2: String, x: RouteRef<T>, y: RouteRef<T>| m0.contains_key(k1) && m0.contains_key(k2) && #[trigger] m0[k1].holds(x) && #[trigger] m0[k2].holds(y) && rid(*x) == rid(*y) implies x == y by {
    //@|         assert(old(self).holds(x) && old(self).holds(y)); assert(old(self).hs()(x) && old(self).hs()(y));
    //@|     }
    //@| }
    //@| exit proof {
    //@|     let m1 = self.schemes@;
    //@|     assert forall|y: RouteRef<T>| a0.holds(y) implies rid(*y) != id@ && self.any_scheme.holds(y) by { assert(a0.hs()(y)); assert(self.any_scheme.hs()(y)); }
    //@|     assert forall|y: RouteRef<T>| self.any_scheme.holds(y) implies a0.holds(y) by { assert(self.any_scheme.hs()(y)); assert(a0.hs()(y)); }
    //@|     assert forall|y: RouteRef<T>| #[trigger] self.hs()(y) <==> old(self).hs()(y) && rid(*y) != id@ by {
    //@|         assert(self.hs()(y) == self.holds(y)); assert(old(self).hs()(y) == old(self).holds(y));
    //@|         if self.holds(y) && !self.any_scheme.holds(y) {
    //@|             let k = choose|k: String| m1.contains_key(k) && #[trigger] m1[k].holds(y);
    //@|             let r = choose|r: Option<RouteRef<T>>| #[trigger] sub_removed(m0[k], m1[k], id@, r);
    //@|             assert(m1[k].hs()(y)); assert(m0[k].hs()(y)); assert(m0[k].holds(y));
    //@|         }
    //@|         if old(self).holds(y) && !a0.holds(y) && rid(*y) != id@ {
    //@|             let k = choose|k: String| m0.contains_key(k) && #[trigger] m0[k].holds(y);
    //@|             assert(m0[k].hs()(y));
    //@|             if m1.contains_key(k) {
    //@|                 let r = choose|r: Option<RouteRef<T>>| #[trigger] sub_removed(m0[k], m1[k], id@, r);
    //@|                 assert(m1[k].hs()(y)); assert(m1[k].holds(y));
    //@|             } else {
    //@|                 let (v1, r) = choose|v1: Sub<T>, r: Option<RouteRef<T>>| #[trigger] sub_removed(m0[k], v1, id@, r) && v1.cnt() == 0;
    //@|                 v1.lemma_wf(); assert(v1.hs()(y)); assert(v1.holds(y));
    //@|             }
    //@|         }
    //@|     }
    //@|     if removed is Some { let x0 = removed.unwrap(); let k = choose|k: String| m0.contains_key(k) && #[trigger] m0[k].holds(x0); assert(old(self).holds(x0)); assert(old(self).hs()(x0)); assert(m0[k].wf()); m0[k].lemma_wf();
    //@|         lemma_msum_remove(m0, cnt_sub::<T>(), k);
    //@|         if m1.contains_key(k) { let r = choose|r: Option<RouteRef<T>>| #[trigger] sub_removed(m0[k], m1[k], id@, r); assert(m0[k].hs()(x0)); assert(r is Some); }
    //@|         else { let (v1, r) = choose|v1: Sub<T>, r: Option<RouteRef<T>>| #[trigger] sub_removed(m0[k], v1, id@, r) && v1.cnt() == 0; assert(m0[k].hs()(x0)); assert(r is Some); }
    //@|     } else {
    //@|         assert forall|y: RouteRef<T>| #[trigger] old(self).hs()(y) implies rid(*y) != id@ by { assert(old(self).holds(y)); if !a0.holds(y) { let k = choose|k: String| m0.contains_key(k) && #[trigger] m0[k].holds(y); } }
    //@|     }
    //@|     assert forall|k: String| m1.contains_key(k) implies (#[trigger] m1[k]).wf() && k@.len() > 0 by { let r = choose|r: Option<RouteRef<T>>| #[trigger] sub_removed(m0[k], m1[k], id@, r); }
    //@|     assert forall|x: RouteRef<T>, y: RouteRef<T>| #[trigger] self.hs()(x) && #[trigger] self.hs()(y) && rid(*x) == rid(*y) implies x == y by { assert(old(self).hs()(x) && old(self).hs()(y)); }
    //@|     assert forall|k: String, x: RouteRef<T>| m1.contains_key(k) && #[trigger] m1[k].holds(x) implies rscheme(*x) == Some(k@) by {
    //@|         let r = choose|r: Option<RouteRef<T>>| #[trigger] sub_removed(m0[k], m1[k], id@, r); assert(m1[k].hs()(x)); assert(m0[k].hs()(x)); assert(m0[k].holds(x));
    //@|     }
    //@|     assert forall|x: RouteRef<T>| #[trigger] self.any_scheme.holds(x) implies (rscheme(*x) matches Some(s) ==> s.len() == 0) by { assert(a0.holds(x)); }
    //@| }

    //@@ fn src/router/request_matcher/scheme.rs :: impl <T>SchemeMatcher<T> / fn batch_remove -> r
    //@| requires old(self).wf(),
    //@| ensures final(self).wf(), batch_law(old(self).hs(), final(self).hs(), ids@), final(self).cnt() == old(self).cnt(),
    //@| closure `|_, matcher|` => `|_k: &String, matcher: &mut Sub<T>| -> (b: bool) requires old(matcher).wf() ensures sub_batched(*old(matcher), *final(matcher), ids@), !b ==> final(matcher).cnt() == 0`
    //@| entry broadcast use group_hash_axioms; broadcast use axiom_string_key_model;
    //@|     let ghost m0 = self.schemes@; let ghost a0 = self.any_scheme;
    //@|     proof { axiom_string_ext(); }
    //@| exit proof {
    //@|     let m1 = self.schemes@; let f = cnt_sub::<T>(); let a1 = self.any_scheme;
    //@|     assert forall|k: String| m1.contains_key(k) implies m0.contains_key(k) && sub_batched(m0[k], #[trigger] m1[k], ids@) by {}
    //@|     assert forall|k: String| m0.contains_key(k) && !m1.contains_key(k) implies f(#[trigger] m0[k]) == 0 && forall|y: RouteRef<T>| !m0[k].holds(y) by { m0[k].lemma_wf(); }
    //@|     assert(m1.dom().subset_of(m0.dom()));
    //@|     lemma_msum_sub(m0, m1, f);
    //@|     assert forall|y: RouteRef<T>| #[trigger] self.hs()(y) <==> old(self).hs()(y) && !ids_has(ids@, rid(*y)) by {
    //@|         assert(self.hs()(y) == self.holds(y)); assert(old(self).hs()(y) == old(self).holds(y));
    //@|         assert(a1.hs()(y) == a1.holds(y)); assert(a0.hs()(y) == a0.holds(y));
    //@|         if self.holds(y) && !a1.holds(y) {
    //@|             let k = choose|k: String| m1.contains_key(k) && #[trigger] m1[k].holds(y);
    //@|             assert(sub_batched(m0[k], m1[k], ids@)); assert(m1[k].hs()(y)); assert(m0[k].hs()(y)); assert(m0[k].holds(y));
    //@|         }
    //@|         if old(self).holds(y) && !a0.holds(y) && !ids_has(ids@, rid(*y)) {
    //@|             let k = choose|k: String| m0.contains_key(k) && #[trigger] m0[k].holds(y);
    //@|             assert(m1.contains_key(k));
    //@|             assert(sub_batched(m0[k], m1[k], ids@)); assert(m0[k].hs()(y)); assert(m1[k].hs()(y)); assert(m1[k].holds(y));
    //@|         }
    //@|     }
    //@|     assert forall|x: RouteRef<T>, y: RouteRef<T>| #[trigger] self.hs()(x) && #[trigger] self.hs()(y) && rid(*x) == rid(*y) implies x == y by { assert(old(self).hs()(x) && old(self).hs()(y)); }
    //@|     assert forall|k: String, x: RouteRef<T>| m1.contains_key(k) && #[trigger] m1[k].holds(x) implies rscheme(*x) == Some(k@) by {
    //@|         assert(sub_batched(m0[k], m1[k], ids@)); assert(m1[k].hs()(x)); assert(m0[k].hs()(x)); assert(m0[k].holds(x));
    //@|     }
    //@|     assert forall|x: RouteRef<T>| #[trigger] a1.holds(x) implies (rscheme(*x) matches Some(s) ==> s.len() == 0) by { assert(a1.hs()(x)); assert(a0.hs()(x)); assert(a0.holds(x)); }
    //@| }

    //@@ fn src/router/request_matcher/scheme.rs :: impl <T>SchemeMatcher<T> / fn len -> r
    //@| ensures r == self.cnt(),
    //@@ fn src/router/request_matcher/scheme.rs :: impl <T>SchemeMatcher<T> / fn is_empty -> r
    //@| ensures r == (self.cnt() == 0),
}
//@@ unrename HostMatcher

// ================================================================ host layer
// SHIM: marker strings are opaque except for their regex text; StaticOrDynamic is the real enum
pub struct MarkerString { pub regex: String, pub vf_rest: u8 }
//@@ item src/marker/mod.rs :: enum StaticOrDynamic
pub enum HostKey { NoHost, Static(Seq<char>), Dynamic(Seq<char>) }
pub uninterp spec fn rhost<T>(r: Route<T>) -> HostKey;
pub open spec fn rhost_of<T>(x: RouteRef<T>) -> HostKey { rhost(*x) }
pub open spec fn host_key(o: Option<&StaticOrDynamic>) -> HostKey {
    match o { None => HostKey::NoHost, Some(StaticOrDynamic::Static(s)) => HostKey::Static(s@), Some(StaticOrDynamic::Dynamic(m)) => HostKey::Dynamic(m.regex@) }
}
impl<T> Route<T> {
    #[verifier::external_body] pub fn host(&self) -> (r: Option<&StaticOrDynamic>) ensures host_key(r) == rhost(*self) { unimplemented!() }
}
// SHIM of the regex tree keyed by unique patterns (unit `tree` verifies the real one against its content laws; here: the induced
// pattern -> value map). ASSUMED contracts, in the shape of HashMap's.
#[verifier::external_body] #[verifier::accept_recursive_types(V)] pub struct UniqueRegexTreeMap<V> { h: std::marker::PhantomData<V> }
impl<V> UniqueRegexTreeMap<V> {
    pub uninterp spec fn tmap(&self) -> Map<Seq<char>, V>;
    #[verifier::external_body]
    pub fn new(ignore_case: bool) -> (r: Self) ensures r.tmap() == Map::<Seq<char>, V>::empty() { unimplemented!() }
    #[verifier::external_body]
    pub fn get_mut(&mut self, regex: &str) -> (r: Option<&mut V>)
        ensures match r {
            Some(v) => old(self).tmap().contains_key(regex@) && *v == old(self).tmap()[regex@] && final(self).tmap() == old(self).tmap().insert(regex@, *final(v)),
            None => !old(self).tmap().contains_key(regex@) && final(self).tmap() == old(self).tmap(),
        },
    { unimplemented!() }
    #[verifier::external_body]
    pub fn insert(&mut self, regex: &str, item: V) ensures final(self).tmap() == old(self).tmap().insert(regex@, item) { unimplemented!() }
    #[verifier::external_body]
    pub fn retain<F: Fn(&str, &mut V) -> bool>(&mut self, f: &F)
        requires forall|k: &str, v: &mut V| old(self).tmap().contains_key(k@) && *v == old(self).tmap()[k@] ==> #[trigger] f.requires((k, v)),
        ensures
            forall|p: Seq<char>| #[trigger] final(self).tmap().contains_key(p) ==> old(self).tmap().contains_key(p) && exists|k: &str, v: &mut V| k@ == p && *v == old(self).tmap()[p] && *final(v) == final(self).tmap()[p] && #[trigger] f.ensures((k, v), true),
            forall|p: Seq<char>| old(self).tmap().contains_key(p) && !#[trigger] final(self).tmap().contains_key(p) ==> exists|k: &str, v: &mut V| k@ == p && *v == old(self).tmap()[p] && #[trigger] f.ensures((k, v), false),
    { unimplemented!() }
    #[verifier::external_body]
    pub fn is_empty(&self) -> (r: bool) ensures r == (self.tmap().len() == 0) { unimplemented!() }
}
//@@ rename IpMatcher Sub
//@@ item src/router/request_matcher/host.rs :: struct HostMatcher

// holds/uniqueness bookkeeping shared by the paths of HostMatcher::insert
pub proof fn lemma_host_uniq<T>(o: HostMatcher<T>, n: HostMatcher<T>, rt: RouteRef<T>)
    requires uniq_ids(o.hs()), forall|x: RouteRef<T>| o.holds(x) ==> rid(*x) != rid(*rt), forall|x: RouteRef<T>| n.holds(x) <==> o.holds(x) || x == rt,
    ensures uniq_ids(n.hs()),
{
    assert forall|x: RouteRef<T>, y: RouteRef<T>| #[trigger] n.hs()(x) && #[trigger] n.hs()(y) && rid(*x) == rid(*y) implies x == y by {
        assert(n.holds(x) && n.holds(y));
        if x != rt && y != rt { assert(o.hs()(x) && o.hs()(y)); }
        else if x != rt { assert(o.holds(x)); } else if y != rt { assert(o.holds(y)); }
    }
}
pub proof fn lemma_host_any_path<T>(o: HostMatcher<T>, n: HostMatcher<T>, rt: RouteRef<T>)
    requires o.wf(), forall|x: RouteRef<T>| o.holds(x) ==> rid(*x) != rid(*rt),
        n.static_hosts@ == o.static_hosts@, n.regex_tree_rule.tmap() == o.regex_tree_rule.tmap(), n.any_host.wf(), n.count == o.count + 1, n.any_host.cnt() == o.any_host.cnt() + 1,
        forall|x: RouteRef<T>| n.any_host.holds(x) <==> o.any_host.holds(x) || x == rt,
        rhost(*rt) is NoHost || rhost(*rt) == HostKey::Static(Seq::<char>::empty()),
    ensures n.wf(), forall|x: RouteRef<T>| n.holds(x) <==> o.holds(x) || x == rt,
{
    assert forall|x: RouteRef<T>| n.holds(x) <==> o.holds(x) || x == rt by {
        if n.holds(x) && !n.any_host.holds(x) {
            if exists|k: String| n.static_hosts@.contains_key(k) && #[trigger] n.static_hosts@[k].holds(x) { let k = choose|k: String| n.static_hosts@.contains_key(k) && #[trigger] n.static_hosts@[k].holds(x); assert(o.static_hosts@[k].holds(x)); }
            else { let p = choose|p: Seq<char>| n.regex_tree_rule.tmap().contains_key(p) && #[trigger] n.regex_tree_rule.tmap()[p].holds(x); assert(o.regex_tree_rule.tmap()[p].holds(x)); }
        }
        if o.holds(x) && !o.any_host.holds(x) {
            if exists|k: String| o.static_hosts@.contains_key(k) && #[trigger] o.static_hosts@[k].holds(x) { let k = choose|k: String| o.static_hosts@.contains_key(k) && #[trigger] o.static_hosts@[k].holds(x); assert(n.static_hosts@[k].holds(x)); }
            else { let p = choose|p: Seq<char>| o.regex_tree_rule.tmap().contains_key(p) && #[trigger] o.regex_tree_rule.tmap()[p].holds(x); assert(n.regex_tree_rule.tmap()[p].holds(x)); }
        }
    }
    lemma_host_uniq(o, n, rt);
    assert forall|x: RouteRef<T>| #[trigger] n.any_host.holds(x) implies (rhost(*x) is NoHost || rhost(*x) == HostKey::Static(Seq::<char>::empty())) by { if x != rt { assert(o.any_host.holds(x)); } }
}

pub proof fn lemma_host_dyn_path<T>(o: HostMatcher<T>, n: HostMatcher<T>, rt: RouteRef<T>, p: Seq<char>)
    requires o.wf(), forall|x: RouteRef<T>| o.holds(x) ==> rid(*x) != rid(*rt), rhost(*rt) == HostKey::Dynamic(p),
        n.static_hosts@ == o.static_hosts@, n.any_host == o.any_host, n.count == o.count + 1,
        n.regex_tree_rule.tmap() == o.regex_tree_rule.tmap().insert(p, n.regex_tree_rule.tmap()[p]),
        n.regex_tree_rule.tmap()[p].wf(),
        forall|x: RouteRef<T>| n.regex_tree_rule.tmap()[p].holds(x) <==> (o.regex_tree_rule.tmap().contains_key(p) && o.regex_tree_rule.tmap()[p].holds(x)) || x == rt,
        n.regex_tree_rule.tmap()[p].cnt() == (if o.regex_tree_rule.tmap().contains_key(p) { o.regex_tree_rule.tmap()[p].cnt() } else { 0 }) + 1,
    ensures n.wf(), forall|x: RouteRef<T>| n.holds(x) <==> o.holds(x) || x == rt,
{
    let t0 = o.regex_tree_rule.tmap(); let t2 = n.regex_tree_rule.tmap(); let v = t2[p]; let f = cnt_sub::<T>();
    lemma_msum_insert(t0, f, p, v);
    if t0.contains_key(p) { lemma_msum_remove(t0, f, p); } else { assert(t0.remove(p) =~= t0); }
    assert forall|x: RouteRef<T>| n.holds(x) <==> o.holds(x) || x == rt by {
        if n.holds(x) && !n.any_host.holds(x) {
            if exists|k: String| n.static_hosts@.contains_key(k) && #[trigger] n.static_hosts@[k].holds(x) { let k = choose|k: String| n.static_hosts@.contains_key(k) && #[trigger] n.static_hosts@[k].holds(x); assert(o.static_hosts@[k].holds(x)); }
            else { let q = choose|q: Seq<char>| t2.contains_key(q) && #[trigger] t2[q].holds(x); if q != p { assert(t0.contains_key(q) && t0[q] == t2[q]); assert(t0[q].holds(x)); } else if x != rt { assert(t0[p].holds(x)); } }
        }
        if o.holds(x) && !o.any_host.holds(x) {
            if exists|k: String| o.static_hosts@.contains_key(k) && #[trigger] o.static_hosts@[k].holds(x) { let k = choose|k: String| o.static_hosts@.contains_key(k) && #[trigger] o.static_hosts@[k].holds(x); assert(n.static_hosts@[k].holds(x)); }
            else { let q = choose|q: Seq<char>| t0.contains_key(q) && #[trigger] t0[q].holds(x); assert(t2.contains_key(q)); if q != p { assert(t2[q] == t0[q]); } assert(t2[q].holds(x)); }
        }
        if x == rt { assert(t2.contains_key(p) && t2[p].holds(x)); }
    }
    lemma_host_uniq(o, n, rt);
    assert forall|q: Seq<char>| t2.contains_key(q) implies (#[trigger] t2[q]).wf() by { if q != p { assert(t0.contains_key(q) && t0[q] == t2[q]); } }
    assert forall|q: Seq<char>, x: RouteRef<T>| t2.contains_key(q) && #[trigger] t2[q].holds(x) implies rhost(*x) == HostKey::Dynamic(q) by {
        if q != p { assert(t0.contains_key(q) && t0[q] == t2[q]); assert(t0[q].holds(x)); } else if x != rt { assert(t0[p].holds(x)); }
    }
}
impl<T> HostMatcher<T> {
    pub open spec fn holds(&self, x: RouteRef<T>) -> bool {
        ||| self.any_host.holds(x)
        ||| exists|k: String| self.static_hosts@.contains_key(k) && #[trigger] self.static_hosts@[k].holds(x)
        ||| exists|p: Seq<char>| self.regex_tree_rule.tmap().contains_key(p) && #[trigger] self.regex_tree_rule.tmap()[p].holds(x)
    }
    pub open spec fn hs(&self) -> spec_fn(RouteRef<T>) -> bool { |x: RouteRef<T>| self.holds(x) }
    pub open spec fn cnt(&self) -> nat { self.count as nat }
    pub open spec fn wf(&self) -> bool {
        &&& self.any_host.wf()
        &&& forall|k: String| self.static_hosts@.contains_key(k) ==> (#[trigger] self.static_hosts@[k]).wf() && k@.len() > 0
        &&& forall|p: Seq<char>| self.regex_tree_rule.tmap().contains_key(p) ==> (#[trigger] self.regex_tree_rule.tmap()[p]).wf()
        &&& self.count == self.any_host.cnt() + msum(self.static_hosts@, cnt_sub::<T>()) + msum(self.regex_tree_rule.tmap(), cnt_sub::<T>())
        &&& uniq_ids(self.hs())
        // bucket-key consistency
        &&& forall|k: String, x: RouteRef<T>| self.static_hosts@.contains_key(k) && #[trigger] self.static_hosts@[k].holds(x) ==> rhost(*x) == HostKey::Static(k@)
        &&& forall|p: Seq<char>, x: RouteRef<T>| self.regex_tree_rule.tmap().contains_key(p) && #[trigger] self.regex_tree_rule.tmap()[p].holds(x) ==> rhost(*x) == HostKey::Dynamic(p)
        &&& forall|x: RouteRef<T>| #[trigger] self.any_host.holds(x) ==> (rhost(*x) is NoHost || rhost(*x) == HostKey::Static(Seq::<char>::empty()))
    }
    //@@ fn src/router/request_matcher/host.rs :: impl <T>HostMatcher<T> / fn new -> r
    //@| ensures r.wf(), r.cnt() == 0, forall|x: RouteRef<T>| !r.holds(x),
    //@| entry broadcast use group_hash_axioms; broadcast use axiom_string_key_model;

    //@@ fn src/router/request_matcher/host.rs :: impl <T>HostMatcher<T> / fn insert
    //@| requires old(self).wf(), old(self).cnt() < usize::MAX, forall|x: RouteRef<T>| old(self).holds(x) ==> rid(*x) != rid(*route),
    //@| ensures final(self).wf(), final(self).cnt() == old(self).cnt() + 1, forall|x: RouteRef<T>| final(self).holds(x) <==> old(self).holds(x) || x == route,
    //@| entry broadcast use group_hash_axioms; broadcast use axiom_string_key_model; broadcast use axiom_borrow_str_contains; broadcast use axiom_borrow_str_maps; broadcast use axiom_borrow_str_upd; broadcast use axiom_borrow_string_upd; broadcast use axiom_arc_cloned;
    //@|     let ghost m0 = self.static_hosts@; let ghost t0 = self.regex_tree_rule.tmap(); let ghost a0 = self.any_host; let ghost f = cnt_sub::<T>(); let ghost rt = route; let ghost hk = rhost_of(rt);
    //@|     proof { axiom_string_ext(); self.any_host.lemma_wf(); lit_empty();
    //@|         match hk { HostKey::Dynamic(p) => { if t0.contains_key(p) { lemma_msum_remove(t0, f, p); t0[p].lemma_wf(); assert forall|x: RouteRef<T>| t0[p].holds(x) implies rid(*x) != rid(*route) by { assert(old(self).holds(x)); } } }, _ => {} } }
    //@| exit proof {
    //@|     if hk is NoHost { lemma_host_any_path(*old(self), *self, rt); }
    //@|     match hk { HostKey::Dynamic(p) => { lemma_host_dyn_path(*old(self), *self, rt, p); }, _ => {} }
    //@| }
    //@| before `return;`: proof { assert(static_host@ =~= Seq::<char>::empty()); lemma_host_any_path(*old(self), *self, rt); }
    //@| after `self.static_hosts.insert(static_host.clone(), IpMatcher::new(self.config.clone()));`: proof {
    //@|     let key = choose|key: String| key@ == static_host@ && self.static_hosts@.contains_key(key);
    //@|     assert(self.static_hosts@ == m0.insert(key, self.static_hosts@[key]));
    //@|     lemma_msum_fresh(m0, f, key, self.static_hosts@[key]);
    //@| }
    //@| before `self.static_hosts.get_mut(static_host).unwrap().insert(route.clone());`: let ghost m1 = self.static_hosts@;
    //@|     proof {
    //@|         let key = choose|key: String| key@ == static_host@ && m1.contains_key(key);
    //@|         assert(m1[key].wf());
    //@|         m1[key].lemma_wf();
    //@|         lemma_msum_remove(m1, f, key);
    //@|         assert forall|x: RouteRef<T>| m1[key].holds(x) implies rid(*x) != rid(*route) by { if m0.contains_key(key) { assert(old(self).holds(x)); } }
    //@|     }
    //@| after `self.static_hosts.get_mut(static_host).unwrap().insert(route.clone());`: proof {
    //@|     let key = choose|key: String| key@ == static_host@ && m1.contains_key(key);
    //@|     let v = self.static_hosts@[key];
    //@|     assert(self.static_hosts@ == m1.insert(key, v));
    //@|     lemma_msum_insert(m1, f, key, v);
    //@|     assert(self.regex_tree_rule.tmap() == t0 && self.any_host == a0);
    //@|     assert forall|x: RouteRef<T>| self.holds(x) <==> old(self).holds(x) || x == rt by {
    //@|         if self.holds(x) && !self.any_host.holds(x) && !(exists|p: Seq<char>| t0.contains_key(p) && #[trigger] t0[p].holds(x)) {
    //@|             let k = choose|k: String| self.static_hosts@.contains_key(k) && #[trigger] self.static_hosts@[k].holds(x);
    //@|             if k != key { assert(m1[k] == self.static_hosts@[k]); assert(m0.contains_key(k) && m0[k].holds(x)); }
    //@|             else if x != rt { assert(m1[key].holds(x)); assert(m0.contains_key(key) && m0[key].holds(x)); }
    //@|         }
    //@|         if old(self).holds(x) && !a0.holds(x) && !(exists|p: Seq<char>| t0.contains_key(p) && #[trigger] t0[p].holds(x)) {
    //@|             let k = choose|k: String| m0.contains_key(k) && #[trigger] m0[k].holds(x);
    //@|             assert(self.static_hosts@.contains_key(k));
    //@|             if k != key { assert(self.static_hosts@[k] == m0[k]); } else { assert(m1[key] == m0[key]); assert(self.static_hosts@[key].holds(x)); }
    //@|         }
    //@|         if x == rt { assert(self.static_hosts@[key].holds(x)); }
    //@|     }
    //@|     assert forall|k: String| self.static_hosts@.contains_key(k) implies (#[trigger] self.static_hosts@[k]).wf() && k@.len() > 0 by { if k != key { assert(m1.contains_key(k) && m1[k] == self.static_hosts@[k]); } }
    //@|     assert forall|k: String, x: RouteRef<T>| self.static_hosts@.contains_key(k) && #[trigger] self.static_hosts@[k].holds(x) implies rhost(*x) == HostKey::Static(k@) by {
    //@|         if k != key { assert(m1[k] == self.static_hosts@[k]); assert(m0.contains_key(k) && m0[k].holds(x)); }
    //@|         else if x != rt { assert(m1[key].holds(x)); assert(m0.contains_key(key) && m0[key].holds(x)); }
    //@|     }
    //@|     lemma_host_uniq(*old(self), *self, rt);
    //@| }

    //@@ fn src/router/request_matcher/host.rs :: impl <T>HostMatcher<T> / fn len -> r
    //@| ensures r == self.cnt(),
    //@@ fn src/router/request_matcher/host.rs :: impl <T>HostMatcher<T> / fn is_empty -> r
    //@| ensures r == (self.cnt() == 0),
}
//@@ unrename IpMatcher

//@@ strlits
} // verus!
fn main() {}
